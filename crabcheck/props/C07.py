"""C07 - weak topological orderings are well formed (nesting clause only)."""
from . import _wto

LEVEL_TEXT = ("Decides only the second sentence of C07 (the nesting reported for a node lists the heads of the strictly "
              "enclosing components, outermost first): in nesting_builder the value recorded for a head is the nesting "
              "before the head is appended, children are visited after the append, the nesting is restored on every exit, "
              "operator+= appends at the end, and nobody else writes the nesting table. The first sentence (each reachable "
              "node once, proper nesting, edge condition for every graph) is a property of an iterative graph algorithm "
              "over all graphs and is NOT decided by static analysis.")
ASSUMPTIONS = ["the component structure handed to nesting_builder is Bourdoncle's WTO (not decided)"]


def r1_nesting(ctx):
    ctx.rule("C07.r1", "head nesting excludes the head; children after append; restored on exit", floor=3)
    ctx.rule("C07.r2", "a vertex records the current nesting", floor=1)
    _wto.nesting_rule(ctx, "C07.r1", "C07.r2")


def r3_writers(ctx):
    ctx.rule("C07.r3", "the nesting table is mutated only by nesting_builder", floor=3)
    _wto.table_writers_rule(ctx, "C07.r3")


def r4_append(ctx):
    ctx.rule("C07.r4", "wto_nesting::operator+= appends at the end (outermost first)", floor=1)
    _wto.append_rule(ctx, "C07.r4")


RULES = [r1_nesting, r3_writers, r4_append]
