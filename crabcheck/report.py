"""Obligation bookkeeping, verdicts, evidence and exit status."""
import json
import os
import sys
import time

from . import tree

VERIF = os.path.dirname(os.path.dirname(os.path.abspath(__file__)))


class Ctx:
    def __init__(self, prop, tier, db, seed=0):
        self.prop = prop
        self.tier = tier
        self.db = db
        self.seed = seed
        self.t0 = time.time()
        self.rules = {}          # rule id -> dict(desc, floor, ok, bad, undecided, exempt, samples)
        self.violations = []     # dicts
        self.undecided_items = []
        self.broken = []         # analysis-broken messages
        self.fn_seen = set()
        self.cur = None
        self.no_evidence = False
        self.extra = {}
        self.decided_keys = set()
        self.skipped_keys = set()
        self.freeze = False

    # ---- rule registration
    def rule(self, rid, desc, floor=1):
        self.rules[rid] = {"desc": desc, "floor": floor, "ok": 0, "bad": 0,
                           "undecided": 0, "exempt": [], "samples": []}
        self.cur = rid
        return rid

    def _r(self, rid):
        rid = rid or self.cur
        return rid, self.rules[rid]

    def saw(self, fn):
        if fn is not None:
            self.fn_seen.add(fn.get("mn") or fn.get("qn"))

    def skipped(self, key, rid=None):
        """a site outside the rule's fragment (no verdict).  Harmless unless
        the reference table says it used to be decided."""
        self.skipped_keys.add(key)
        rid, r = self._r(rid)
        r["skipped"] = r.get("skipped", 0) + 1

    def ok(self, what, fn=None, node=None, rid=None, key=None):
        rid, r = self._r(rid)
        r["ok"] += 1
        if key is not None:
            self.decided_keys.add(key)
        self.saw(fn)
        if len(r["samples"]) < 4:
            s = what
            if fn is not None:
                s += "  [" + (tree.loc(fn, node) if node is not None else "%s:%s" % (fn["file"], fn["line"])) + "]"
            r["samples"].append(s)

    def bad(self, what, fn=None, node=None, sig=None, rid=None, path=None, key=None):
        """a violated obligation.  sig: site signature (stable across line
        changes) used to match known findings."""
        rid, r = self._r(rid)
        r["bad"] += 1
        if key is not None:
            self.decided_keys.add(key)
        self.saw(fn)
        v = {"rule": rid, "rule_desc": r["desc"], "what": what,
             "pk": fn["pk"] if fn else None,
             "inst": fn["qn"] if fn else None,
             "loc": (tree.loc(fn, node) if (fn is not None and node is not None)
                     else ("%s:%s" % (fn["file"], fn["line"]) if fn else None)),
             "sig": sig or what, "path": path}
        self.violations.append(v)

    def undecided(self, what, fn=None, node=None, rid=None, reference_decided=True):
        """construct outside the rule's fragment.  If the site was decided on
        the reference tree the check can no longer vouch for it -> exit 2."""
        rid, r = self._r(rid)
        r["undecided"] += 1
        self.saw(fn)
        item = {"rule": rid, "what": what,
                "loc": (tree.loc(fn, node) if (fn is not None and node is not None)
                        else ("%s:%s" % (fn["file"], fn["line"]) if fn else None))}
        self.undecided_items.append(item)
        if reference_decided:
            self.broken.append("rule %s can no longer decide: %s (%s)" % (rid, what, item["loc"]))

    def exempt(self, symbol, reason, rid=None):
        rid, r = self._r(rid)
        r["exempt"].append({"symbol": symbol, "reason": reason})

    def fail(self, msg):
        self.broken.append(msg)

    def need(self, items, what, rid=None):
        """anchor check: an empty match is analysis-broken, never a pass"""
        if not items:
            rid = rid or self.cur
            self.broken.append("rule %s: anchor vanished: %s" % (rid, what))
            return False
        return True


def load_known():
    p = os.path.join(VERIF, "known_findings.json")
    if not os.path.exists(p):
        return []
    with open(p) as fh:
        return json.load(fh).get("findings", [])


def finish(ctx, level_text, assumptions):
    known = [k for k in load_known() if k.get("property") == ctx.prop and k.get("status") == "known"]
    new_violations = []
    known_hits = []
    seen_sigs = set()
    for v in ctx.violations:
        key = (v["rule"], v["pk"], v["sig"])
        hit = None
        for k in known:
            if k["rule"] == v["rule"] and k.get("pk") == v["pk"] and k.get("sig") == v["sig"]:
                hit = k
                break
        if hit is not None:
            if key not in seen_sigs:
                known_hits.append((v, hit))
        else:
            new_violations.append(v)
        seen_sigs.add(key)
    # reference table: sites decided on the reference tree must stay decidable
    refp = os.path.join(VERIF, "tables", "reference", ctx.prop + ".json")
    if ctx.freeze:
        os.makedirs(os.path.dirname(refp), exist_ok=True)
        with open(refp, "w") as fh:
            json.dump(sorted(ctx.decided_keys), fh, indent=0)
        print("froze %d decided keys into %s" % (len(ctx.decided_keys), refp))
    elif os.path.exists(refp):
        with open(refp) as fh:
            ref = json.load(fh)
        lost = [k for k in ref if k not in ctx.decided_keys]
        for k in lost[:10]:
            ctx.broken.append("site decided on the reference tree is no longer decidable: %s" % k)
        if len(lost) > 10:
            ctx.broken.append("... and %d more reference sites" % (len(lost) - 10))
    # floors
    for rid, r in ctx.rules.items():
        decided = r["ok"] + r["bad"]
        if decided < r["floor"]:
            ctx.broken.append("rule %s decided %d obligations, below its floor %d "
                              "(anchor moved or pattern no longer instantiated)" % (rid, decided, r["floor"]))
    obligations = sum(r["ok"] + r["bad"] + r["undecided"] for r in ctx.rules.values())
    discharged = sum(r["ok"] for r in ctx.rules.values())
    outdir = os.path.join(VERIF, "out")
    if ctx.no_evidence:
        outdir = os.path.join(VERIF, "out", "selftest", "%d" % os.getpid())
    os.makedirs(outdir, exist_ok=True)
    # de-duplicate violation reports per (rule, pk, sig): one replay file each
    lines = []
    uniq = {}
    for v in new_violations:
        uniq.setdefault((v["rule"], v["pk"], v["sig"]), []).append(v)
    n = 0
    for key, vs in uniq.items():
        n += 1
        path = os.path.join(outdir, "%s-%d.json" % (ctx.prop, n))
        with open(path, "w") as fh:
            json.dump({"property": ctx.prop, "rule": vs[0]["rule"], "rule_desc": vs[0]["rule_desc"],
                       "pattern": vs[0]["pk"], "sig": vs[0]["sig"],
                       "instances": [{"inst": x["inst"], "loc": x["loc"], "what": x["what"], "path": x["path"]} for x in vs[:20]]},
                      fh, indent=1)
        lines.append("VIOLATION property=%s replay=%s" % (ctx.prop, path))
        lines.append("  rule %s (%s)" % (vs[0]["rule"], vs[0]["rule_desc"]))
        lines.append("  %s  in %s" % (vs[0]["loc"], vs[0]["pk"]))
        lines.append("  %s" % vs[0]["what"])
        if len(vs) > 1:
            lines.append("  (%d instantiations)" % len(vs))
    for v, k in known_hits:
        lines.append("KNOWN-FINDING: property=%s %s [%s %s]" % (ctx.prop, k.get("what", v["what"]), v["rule"], v["loc"]))
    status = 0
    if uniq:
        status = 1
    elif ctx.broken:
        status = 2
    for b in ctx.broken:
        lines.append("ANALYSIS-BROKEN property=%s %s" % (ctx.prop, b))
    wall = time.time() - ctx.t0
    samples = []
    for rid, r in ctx.rules.items():
        for s in r["samples"][:2]:
            samples.append("%s: %s" % (rid, s))
    ev = {
        "property_id": ctx.prop,
        "tier": ctx.tier,
        "seed": ctx.seed,
        "level": "other",
        "coverage": {
            "explanation": level_text,
            "obligations": obligations,
            "discharged": discharged,
            "violated": sum(r["bad"] for r in ctx.rules.values()),
            "undecided": sum(r["undecided"] for r in ctx.rules.values()),
            "evaluations": obligations,
            "distinct_nontrivial": discharged,
            "rule": "one obligation per (rule instance, matched site, template instantiation); "
                    "non-trivial = the rule's anchor matched and the site was decided (ok or violated)",
            "rules": {rid: {"desc": r["desc"], "floor": r["floor"], "ok": r["ok"], "violated": r["bad"],
                            "undecided": r["undecided"], "skipped_out_of_fragment": r.get("skipped", 0), "exempt": r["exempt"]} for rid, r in ctx.rules.items()},
            "samples": samples[:40],
            "functions_analysed": len(ctx.fn_seen),
            "units_parsed": len(ctx.db.units()),
            "units": sorted(ctx.db.units().keys()),
            "records_loaded": ctx.db.loaded_records,
            "tree_key": ctx.db.index["key"],
            "known_findings_hit": [k.get("what") for _, k in known_hits],
            "analysis_broken": ctx.broken,
            "checker_cmd": "python3 check.py %s --tier %s" % (ctx.prop, ctx.tier),
            "trusted_base": ["clang 14 parser / template instantiation", "crabfacts normalisation",
                             "frozen tables under /verif/tables and in crabcheck/props"],
        },
        "assumptions": assumptions,
        "wall_s": round(time.time() - ctx.t0, 2),
        "violations": len(uniq),
    }
    ev["coverage"].update(ctx.extra)
    evdir = os.path.join(VERIF, "evidence")
    if not ctx.no_evidence:
        os.makedirs(evdir, exist_ok=True)
        with open(os.path.join(evdir, ctx.prop + ".json"), "w") as fh:
            json.dump(ev, fh, indent=1)
    for l in lines:
        print(l)
    print("%s: %d obligations, %d discharged, %d violated (%d new sites), %d undecided, %d rules, %.1fs -> exit %d" %
          (ctx.prop, obligations, discharged, sum(r["bad"] for r in ctx.rules.values()), len(uniq),
           sum(r["undecided"] for r in ctx.rules.values()), len(ctx.rules), wall, status))
    return status
