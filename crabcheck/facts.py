"""Fact extraction and loading.

Runs the crabfacts clang plugin over the translation units (lib/*.cpp of the
*current* /repo tree + /verif/units/u_*.cpp), post-processes the JSON into
per-source-file shards (pickle) and offers a small query API.

Nothing of /repo is executed: clang is invoked with -fsyntax-only.
The cache key is the SHA-256 of every file under REPO/include/crab, REPO/lib,
/verif/units and the plugin source, recomputed on every run, so an edited tree
is always re-parsed.
"""
import fcntl
import hashlib
import json
import os
import pickle
import re
import shutil
import subprocess
import sys
import time
from concurrent.futures import ProcessPoolExecutor, ThreadPoolExecutor

VERIF = os.path.dirname(os.path.dirname(os.path.abspath(__file__)))
REPO = os.environ.get("CRAB_REPO", "/repo")
CACHE_ROOT = os.path.join(VERIF, "out", "cache")
PLUGIN = os.path.join(VERIF, "build", "crabfacts.so")
KEEP_CACHES = 6


class AnalysisBroken(Exception):
    """The analysis cannot vouch for an obligation (exit status 2)."""


def _sha_tree(repo):
    h = hashlib.sha256()
    roots = [os.path.join(repo, "include", "crab"), os.path.join(repo, "lib"),
             os.path.join(VERIF, "units"),
             os.path.join(VERIF, "engine")]
    n = 0
    for root in roots:
        for d, dirs, files in os.walk(root):
            dirs.sort()
            for f in sorted(files):
                p = os.path.join(d, f)
                if f.endswith((".o", ".so", ".pyc")):
                    continue
                h.update(os.path.relpath(p, root).encode())
                h.update(b"\0")
                try:
                    with open(p, "rb") as fh:
                        h.update(fh.read())
                except OSError:
                    pass
                h.update(b"\0")
                n += 1
    return h.hexdigest()[:24], n


def _gen_config(repo, incdir):
    """config.h as the shipped configuration has it (only CRAB_STATS on)."""
    os.makedirs(os.path.join(incdir, "crab"), exist_ok=True)
    src = os.path.join(repo, "include", "crab", "config.h.cmake")
    on = {"CRAB_STATS": "TRUE"}
    out = []
    with open(src) as fh:
        for line in fh:
            m = re.match(r"#cmakedefine\s+(\w+)", line)
            if m:
                if m.group(1) in on:
                    out.append("#define %s %s\n" % (m.group(1), on[m.group(1)]))
                else:
                    out.append("/* #undef %s */\n" % m.group(1))
            else:
                out.append(line)
    with open(os.path.join(incdir, "crab", "config.h"), "w") as fh:
        fh.writelines(out)


def list_units(repo):
    units = []
    libdir = os.path.join(repo, "lib")
    for f in sorted(os.listdir(libdir)):
        if f.endswith(".cpp"):
            units.append(("lib_" + f[:-4], os.path.join(libdir, f)))
    udir = os.path.join(VERIF, "units")
    for f in sorted(os.listdir(udir)):
        if f.startswith("u_") and f.endswith(".cpp"):
            units.append((f[:-4], os.path.join(udir, f)))
    return units


def _expected_errors():
    with open(os.path.join(VERIF, "units", "expected_errors.json")) as fh:
        d = json.load(fh)
    return d["errors"]


def _run_unit(args):
    name, path, repo, cdir = args
    out = os.path.join(cdir, "raw", name + ".json")
    cmd = ["clang++", "-fsyntax-only", "-std=c++11",
           "-I" + os.path.join(repo, "include"),
           "-I" + os.path.join(cdir, "include"),
           "-I" + os.path.join(VERIF, "units"),
           "-DNDEBUG", "-w", "-ferror-limit=0",
           "-fplugin=" + PLUGIN,
           "-Xclang", "-plugin", "-Xclang", "crabfacts"]
    for a in ["out=" + out,
              "root=" + os.path.join(repo, "include", "crab"),
              "root=" + os.path.join(repo, "lib"),
              "root=" + os.path.join(VERIF, "units"),
              "allowerrors=1"]:
        cmd += ["-Xclang", "-plugin-arg-crabfacts", "-Xclang", a]
    cmd.append(path)
    t0 = time.time()
    p = subprocess.run(cmd, stdout=subprocess.PIPE, stderr=subprocess.PIPE,
                       universal_newlines=True)
    errs = [l for l in p.stderr.splitlines() if " error: " in l or "fatal error" in l]
    return name, errs, time.time() - t0, os.path.exists(out)


# ---------------------------------------------------------------- post-process
_CHILD_KEYS = ("o", "a", "b", "c", "t", "e", "i", "n", "v", "r", "L", "R", "fx",
               "init", "var", "ch", "h", "params", "caps")


def _resolve(node, callees, types, strs):
    """in place: f/fn -> callee dict, T -> sugar type string, TC -> canonical"""
    stack = [node]
    while stack:
        n = stack.pop()
        if isinstance(n, list):
            stack.extend(n)
            continue
        if not isinstance(n, dict):
            continue
        f = n.get("f")
        if isinstance(f, int):
            n["f"] = callees[f]
        f = n.get("fn")
        if isinstance(f, int):
            n["fn"] = callees[f]
        for tk in ("T", "LT", "RT", "CT"):
            t = n.get(tk)
            if isinstance(t, int):
                n[tk] = types[t][0]
                n[tk + "C"] = types[t][1]
        k = n.get("k")
        if k == "mem":
            c = n.get("cls")
            if isinstance(c, int):
                n["cls"] = strs[c]
        elif k == "ref":
            c = n.get("en")
            if isinstance(c, int):
                n["en"] = strs[c]
        for ck in _CHILD_KEYS:
            v = n.get(ck)
            if isinstance(v, (dict, list)):
                stack.append(v)


def _rel(path, repo):
    if not path:
        return path
    rp = repo.rstrip("/") + "/"
    if path.startswith(rp):
        return path[len(rp):]
    vp = VERIF.rstrip("/") + "/"
    if path.startswith(vp):
        return "verif/" + path[len(vp):]
    return path


def _shard_name(relfile):
    return relfile.replace("/", "__")


def _post_unit(args):
    name, repo, cdir = args
    raw = os.path.join(cdir, "raw", name + ".json")
    with open(raw) as fh:
        d = json.load(fh)
    types = d["types"]
    strs = d["strings"]
    callees = d["callees"]
    for c in callees:
        if isinstance(c.get("ret"), int):
            c["ret"] = types[c["ret"]][0]
        if isinstance(c.get("targs"), int):
            c["targs"] = strs[c["targs"]]
        if "file" in c:
            c["file"] = _rel(c["file"], repo)
    shards = {}
    meta = {"fn": 0, "class": 0, "enum": 0, "pat": 0}
    for r in d["records"]:
        kind = r["kind"]
        meta[kind] = meta.get(kind, 0) + 1
        r["unit"] = name
        r["file"] = _rel(r.get("file"), repo)
        if kind == "fn":
            if isinstance(r.get("ret"), int):
                r["ret"] = types[r["ret"]][0]
            if isinstance(r.get("targs"), int):
                r["targs"] = strs[r["targs"]]
            for p in r.get("params", []):
                t = p.get("T")
                if isinstance(t, int):
                    p["T"] = types[t][0]
                    p["TC"] = types[t][1]
            _resolve(r.get("body"), callees, types, strs)
            for i in r.get("inits", []):
                _resolve(i.get("e"), callees, types, strs)
        shards.setdefault(_shard_name(r["file"]), []).append(r)
    odir = os.path.join(cdir, "units", name)
    os.makedirs(odir, exist_ok=True)
    for s, recs in shards.items():
        with open(os.path.join(odir, s + ".pkl"), "wb") as fh:
            pickle.dump(recs, fh, protocol=pickle.HIGHEST_PROTOCOL)
    os.remove(raw)
    return name, meta, sorted(shards.keys())


def _build_plugin():
    subprocess.check_call([os.path.join(VERIF, "engine", "build.sh")])


def _prune_caches(keep):
    if not os.path.isdir(CACHE_ROOT):
        return
    ds = []
    for d in os.listdir(CACHE_ROOT):
        p = os.path.join(CACHE_ROOT, d)
        if os.path.isdir(p) and p != keep:
            ds.append((os.path.getmtime(p), p))
    ds.sort(reverse=True)
    now = time.time()
    for mt, p in ds[KEEP_CACHES - 1:]:
        if now - mt > 900:          # never remove a cache another run may be reading
            shutil.rmtree(p, ignore_errors=True)


def ensure_facts(repo=None, verbose=True):
    """returns the cache directory holding the facts of the current tree"""
    repo = repo or REPO
    os.makedirs(CACHE_ROOT, exist_ok=True)
    _build_plugin()
    key, nfiles = _sha_tree(repo)
    cdir = os.path.join(CACHE_ROOT, key)
    lock = open(os.path.join(CACHE_ROOT, ".lock"), "w")
    fcntl.flock(lock, fcntl.LOCK_EX)
    try:
        done = os.path.join(cdir, "index.json")
        if os.path.exists(done):
            os.utime(cdir, None)
            return cdir
        if os.path.isdir(cdir):
            shutil.rmtree(cdir)
        os.makedirs(os.path.join(cdir, "raw"))
        t0 = time.time()
        _gen_config(repo, os.path.join(cdir, "include"))
        units = list_units(repo)
        expected = _expected_errors()
        broken = []
        unit_info = {}
        with ThreadPoolExecutor(max_workers=16) as ex:
            results = list(ex.map(_run_unit, [(n, p, repo, cdir) for n, p in units]))
        for name, errs, secs, ok in results:
            exp = expected
            unexpected = []
            matched = set()
            for e in errs:
                hit = False
                for i, (fsuf, msg) in enumerate(exp):
                    if fsuf in e and msg in e:
                        hit = True
                        matched.add(i)
                if not hit:
                    unexpected.append(e)
            if unexpected or not ok:
                broken.append((name, unexpected[:5] or ["no facts written"]))
            unit_info[name] = {"secs": round(secs, 2), "errors_expected": len(errs) - len(unexpected)}
        if broken:
            msg = "; ".join("%s: %s" % (n, " | ".join(e)) for n, e in broken)
            shutil.rmtree(cdir, ignore_errors=True)
            raise AnalysisBroken("translation units failed to parse: " + msg)
        with ProcessPoolExecutor(max_workers=16) as ex:
            posts = list(ex.map(_post_unit, [(n, repo, cdir) for n, _ in units]))
        shard_units = {}
        for name, meta, shards in posts:
            unit_info[name].update(meta)
            for s in shards:
                shard_units.setdefault(s, []).append(name)
        shutil.rmtree(os.path.join(cdir, "raw"), ignore_errors=True)
        idx = {"repo": repo, "key": key, "files_hashed": nfiles,
               "units": unit_info, "shards": shard_units,
               "extract_secs": round(time.time() - t0, 1)}
        with open(done + ".tmp", "w") as fh:
            json.dump(idx, fh)
        os.rename(done + ".tmp", done)
        if verbose:
            sys.stderr.write("[facts] %d units parsed in %.1fs (key %s)\n" %
                             (len(units), time.time() - t0, key))
        _prune_caches(cdir)
        return cdir
    finally:
        fcntl.flock(lock, fcntl.LOCK_UN)
        lock.close()


class DB:
    """query interface over the shards of one extraction"""

    def __init__(self, cdir):
        self.cdir = cdir
        with open(os.path.join(cdir, "index.json")) as fh:
            self.index = json.load(fh)
        self.repo = self.index["repo"]
        self._shards = {}
        self.loaded_records = 0

    # -- loading
    def shard(self, relfile):
        s = _shard_name(relfile)
        if s in self._shards:
            return self._shards[s]
        recs = {"fn": {}, "class": {}, "enum": {}, "pat": {}}
        for u in self.index["shards"].get(s, []):
            p = os.path.join(self.cdir, "units", u, s + ".pkl")
            with open(p, "rb") as fh:
                for r in pickle.load(fh):
                    k = r["kind"]
                    if k == "fn":
                        key = r["mn"]
                    elif k == "class":
                        key = r["qn"]
                    elif k == "enum":
                        key = r["pk"]
                    else:
                        key = (r["pk"], r["psig"], r["line"])
                    if key not in recs[k]:
                        recs[k][key] = r
        out = {k: list(v.values()) for k, v in recs.items()}
        self._shards[s] = out
        self.loaded_records += sum(len(v) for v in out.values())
        return out

    def files(self):
        return sorted(s.replace("__", "/") for s in self.index["shards"])

    def has_file(self, relfile):
        return _shard_name(relfile) in self.index["shards"]

    def units(self):
        return self.index["units"]

    # -- queries (files: list of repo-relative source files to look in)
    def fns(self, files, pk=None, cpk=None, name=None, pred=None):
        if isinstance(files, str):
            files = [files]
        out = []
        for f in files:
            for r in self.shard(f)["fn"]:
                if pk is not None and r["pk"] != pk:
                    continue
                if cpk is not None and r.get("cpk") != cpk:
                    continue
                if name is not None and r["name"] != name:
                    continue
                if pred is not None and not pred(r):
                    continue
                out.append(r)
        out.sort(key=lambda r: (r["file"], r["line"], r["mn"]))
        return out

    def classes(self, files, pk=None, pred=None, dependent=None):
        if isinstance(files, str):
            files = [files]
        out = []
        for f in files:
            for r in self.shard(f)["class"]:
                if pk is not None and r["pk"] != pk:
                    continue
                if dependent is not None and bool(r.get("dependent")) != dependent:
                    continue
                if pred is not None and not pred(r):
                    continue
                out.append(r)
        out.sort(key=lambda r: (r["file"], r["line"], r["qn"]))
        return out

    def enums(self, files, pk=None):
        if isinstance(files, str):
            files = [files]
        out = []
        for f in files:
            for r in self.shard(f)["enum"]:
                if pk is None or r["pk"] == pk:
                    out.append(r)
        return out

    def patterns(self, files):
        if isinstance(files, str):
            files = [files]
        out = []
        for f in files:
            out.extend(self.shard(f)["pat"])
        return out


def load(repo=None):
    return DB(ensure_facts(repo))


if __name__ == "__main__":
    t = time.time()
    db = load()
    print(json.dumps(db.index["units"], indent=1))
    print("files:", len(db.files()), "secs", round(time.time() - t, 1))
