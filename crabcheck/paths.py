"""Path analyses over the structured (normalised) trees.

* Flow        generic forward dataflow over a function body (structured
              control flow; forward gotos only).
* must_events "facts that hold on every path" instance (K1 / K2).
* guards      control-dependence guards of every node (K3).
"""
from .tree import children, strip, walk, is_call, STMT_KINDS


class Unstructured(Exception):
    """construct outside the fragment (backward goto, try/catch, ...)"""


def is_noreturn_call(n):
    if not isinstance(n, dict) or n.get("k") != "call":
        return False
    f = n.get("f")
    if isinstance(f, dict):
        if f.get("noreturn"):
            return True
        if f.get("qn") in ("exit", "std::exit", "abort", "std::abort", "__assert_fail"):
            return True
    return False


def terminates(n):
    """statement never completes normally (return/break/continue/goto/exit)"""
    if not isinstance(n, dict):
        return False
    k = n.get("k")
    if k in ("ret", "break", "continue", "goto", "throw"):
        return True
    if k == "call":
        return is_noreturn_call(n)
    if k == "seq":
        return any(terminates(x) for x in n.get("b", []))
    if k == "if":
        return "e" in n and terminates(n.get("t")) and terminates(n.get("e"))
    if k == "do":
        # do { ...; exit(); } while (0)  (CRAB_ERROR)
        b = n.get("b")
        return terminates_no_break(b)
    if k == "label":
        return terminates(n.get("b"))
    return False


def terminates_no_break(n):
    """terminates by return/exit (not by break/continue of an enclosing loop)"""
    if not isinstance(n, dict):
        return False
    k = n.get("k")
    if k in ("ret", "goto", "throw"):
        return True
    if k == "call":
        return is_noreturn_call(n)
    if k == "seq":
        return any(terminates_no_break(x) for x in n.get("b", []))
    if k == "if":
        return "e" in n and terminates_no_break(n.get("t")) and terminates_no_break(n.get("e"))
    if k == "do":
        return terminates_no_break(n.get("b"))
    return False


class Flow:
    """Forward dataflow.  Subclass and override:
         join(a, b)            lattice join of two reachable states
         transfer(n, st)       state after evaluating node n itself (children
                               already evaluated); default identity
         refine(cond, st, pol) state when `cond` evaluated to pol
       State None means unreachable.  `at[id(node)]` is the join over all
       visits of the state *before* the node is evaluated; `after[id(node)]`
       the state after it."""

    MAX_ITER = 12

    def __init__(self, record_after=False):
        self.at = {}
        self.after = {}
        self.record_after = record_after
        self.returns = []          # (ret node or None for fall-off, state)
        self.nodes = {}

    # ---- client hooks
    def join(self, a, b):
        raise NotImplementedError

    def transfer(self, n, st):
        return st

    def refine(self, cond, st, pol):
        return st

    def equal(self, a, b):
        return a == b

    # ---- helpers
    def _join(self, a, b):
        if a is None:
            return b
        if b is None:
            return a
        return self.join(a, b)

    def _record(self, n, st):
        if st is None:
            return
        i = id(n)
        self.nodes[i] = n
        if i in self.at:
            self.at[i] = self.join(self.at[i], st)
        else:
            self.at[i] = st

    def _record_after(self, n, st):
        if st is None or not self.record_after:
            return
        i = id(n)
        if i in self.after:
            self.after[i] = self.join(self.after[i], st)
        else:
            self.after[i] = st

    # ---- expressions
    def expr(self, n, st):
        if st is None or not isinstance(n, dict):
            return st
        self._record(n, st)
        k = n.get("k")
        if k == "bin" and n.get("op") in ("&&", "||"):
            s1 = self.expr(n.get("L"), st)
            if s1 is None:
                return None
            if n["op"] == "&&":
                sr = self.expr(n.get("R"), self.refine(n.get("L"), s1, True))
                out = self._join(self.refine(n.get("L"), s1, False), sr)
            else:
                sr = self.expr(n.get("R"), self.refine(n.get("L"), s1, False))
                out = self._join(self.refine(n.get("L"), s1, True), sr)
            out = self.transfer(n, out) if out is not None else None
            self._record_after(n, out)
            return out
        if k == "cond":
            s1 = self.expr(n.get("c"), st)
            if s1 is None:
                return None
            a = self.expr(n.get("t"), self.refine(n.get("c"), s1, True))
            b = self.expr(n.get("e"), self.refine(n.get("c"), s1, False))
            out = self._join(a, b)
            out = self.transfer(n, out) if out is not None else None
            self._record_after(n, out)
            return out
        if k == "lambda":
            out = self.transfer(n, st)
            self._record_after(n, out)
            return out
        if k == "asg":
            # evaluate RHS first then LHS (either order: both evaluated)
            s = self.expr(n.get("R"), st)
            s = self.expr(n.get("L"), s)
            out = self.transfer(n, s) if s is not None else None
            self._record_after(n, out)
            return out
        s = st
        for c in children(n):
            if c.get("k") in STMT_KINDS and c.get("k") != "decl":
                s = self.stmt(c, s)
            else:
                s = self.expr(c, s)
            if s is None:
                return None
        out = self.transfer(n, s)
        if k == "call" and is_noreturn_call(n):
            out = None
        self._record_after(n, out)
        return out

    # ---- statements
    def run(self, body):
        self._brk = []
        self._cont = []
        self._gotos = {}
        self._labels_seen = set()
        out = self.stmt(body, self.initial())
        if out is not None:
            self.returns.append((None, out))
        return out

    def initial(self):
        raise NotImplementedError

    def stmt(self, n, st):
        if st is None and not (isinstance(n, dict) and self._contains_label(n)):
            return None
        if not isinstance(n, dict):
            return st
        k = n.get("k")
        if k not in STMT_KINDS:
            return self.expr(n, st)
        if st is not None:
            self._record(n, st)
        if k == "seq":
            s = st
            for c in n.get("b", []):
                s = self.stmt(c, s)
            self._record_after(n, s)
            return s
        if k == "decl":
            s = self.expr(n.get("i"), st) if "i" in n else st
            out = self.transfer(n, s) if s is not None else None
            self._record_after(n, out)
            return out
        if k == "if":
            s = st
            if "init" in n:
                s = self.stmt(n["init"], s)
            if "var" in n:
                s = self.stmt(n["var"], s)
            s = self.expr(n.get("c"), s)
            if s is None:
                return None
            a = self.stmt(n.get("t"), self.refine(n.get("c"), s, True))
            sf = self.refine(n.get("c"), s, False)
            b = self.stmt(n["e"], sf) if "e" in n else sf
            out = self._join(a, b)
            self._record_after(n, out)
            return out
        if k in ("while", "for", "rangefor", "do"):
            return self._loop(n, st)
        if k == "switch":
            return self._switch(n, st)
        if k == "ret":
            s = self.expr(n.get("v"), st) if "v" in n else st
            if s is not None:
                s = self.transfer(n, s)
                self.returns.append((n, s))
            return None
        if k == "break":
            self._brk[-1].append(st)
            return None
        if k == "continue":
            self._cont[-1].append(st)
            return None
        if k == "goto":
            if n["n"] in self._labels_seen:
                raise Unstructured("backward goto %s" % n["n"])
            self._gotos.setdefault(n["n"], []).append(st)
            return None
        if k == "label":
            self._labels_seen.add(n["n"])
            s = st
            for g in self._gotos.get(n["n"], []):
                s = self._join(s, g)
            return self.stmt(n.get("b"), s)
        if k == "try":
            raise Unstructured("try/catch")
        if k in ("case", "default"):
            return st
        # otherstmt
        s = st
        for c in children(n):
            s = self.stmt(c, s)
        return s

    def _contains_label(self, n):
        return any(x.get("k") == "label" for x in walk(n))

    def _loop(self, n, st):
        k = n["k"]
        s0 = st
        if k == "for" and "i" in n:
            s0 = self.stmt(n["i"], s0)
        if k == "rangefor":
            s0 = self.expr(n.get("r"), s0)
        if s0 is None:
            return None
        head = s0
        exit_st = None
        for it in range(self.MAX_ITER):
            self._brk.append([])
            self._cont.append([])
            exit_false = None
            if k == "do":
                b = self.stmt(n.get("b"), head)
                for c in self._cont[-1]:
                    b = self._join(b, c)
                if b is not None and "c" in n:
                    b = self.expr(n["c"], b)
                back = self.refine(n["c"], b, True) if b is not None else None
                exit_false = self.refine(n["c"], b, False) if b is not None else None
            else:
                s = head
                if k == "while" and "var" in n:
                    s = self.stmt(n["var"], s)
                if k in ("while", "for") and "c" in n:
                    s = self.expr(n["c"], s)
                    st_true = self.refine(n["c"], s, True) if s is not None else None
                    exit_false = self.refine(n["c"], s, False) if s is not None else None
                elif k == "rangefor":
                    if "v" in n:
                        s = self.stmt(n["v"], s)
                    st_true = s
                    exit_false = head
                else:
                    st_true = s          # for(;;)
                    exit_false = None
                b = self.stmt(n.get("b"), st_true)
                for c in self._cont[-1]:
                    b = self._join(b, c)
                if k == "for" and "n" in n and b is not None:
                    b = self.expr(n["n"], b)
                back = b
            brks = self._brk.pop()
            self._cont.pop()
            exit_st = exit_false
            for x in brks:
                exit_st = self._join(exit_st, x)
            new_head = self._join(s0, back)
            if self.equal(new_head, head):
                break
            head = new_head
        else:
            raise Unstructured("loop does not stabilise")
        self._record_after(n, exit_st)
        return exit_st

    def _switch(self, n, st):
        s = self.expr(n.get("c"), st)
        if s is None:
            return None
        self._brk.append([])
        cur = None
        has_default = False
        for c in n.get("b", []):
            ck = c.get("k")
            if ck == "case":
                cur = self._join(cur, self.refine_case(n.get("c"), c, s))
            elif ck == "default":
                has_default = True
                cur = self._join(cur, s)
            else:
                cur = self.stmt(c, cur)
        out = cur
        for x in self._brk.pop():
            out = self._join(out, x)
        if not has_default and not n.get("allenum"):
            out = self._join(out, s)
        self._record_after(n, out)
        return out

    def refine_case(self, cond, case, st):
        return st


class MustEvents(Flow):
    """state = frozenset of event labels established on every path.
    gen(node) -> iterable of labels generated when `node` is evaluated;
    kill(node) -> labels removed."""

    def __init__(self, gen, kill=None, refine=None, init=()):
        Flow.__init__(self)
        self._gen = gen
        self._kill = kill
        self._refine = refine
        self._init = frozenset(init)

    def initial(self):
        return self._init

    def join(self, a, b):
        return a & b

    def transfer(self, n, st):
        if self._kill is not None:
            kl = self._kill(n)
            if kl:
                st = st - frozenset(kl)
        g = self._gen(n)
        if g:
            st = st | frozenset(g)
        return st

    def refine(self, cond, st, pol):
        if self._refine is not None:
            extra = self._refine(cond, pol)
            if extra is None:
                return None          # branch infeasible
            if extra:
                return st | frozenset(extra)
        return st


def must_events(body, gen, kill=None, refine=None, init=()):
    f = MustEvents(gen, kill, refine, init)
    f.run(body)
    return f


# --------------------------------------------------------------------- guards
class _Guards:
    def __init__(self):
        self.out = {}

    def expr(self, n, g):
        if not isinstance(n, dict):
            return
        self.out[id(n)] = g
        k = n.get("k")
        if k == "bin" and n.get("op") in ("&&", "||"):
            self.expr(n.get("L"), g)
            pol = n["op"] == "&&"
            self.expr(n.get("R"), g + ((n.get("L"), pol),))
            return
        if k == "cond":
            self.expr(n.get("c"), g)
            self.expr(n.get("t"), g + ((n.get("c"), True),))
            self.expr(n.get("e"), g + ((n.get("c"), False),))
            return
        for c in children(n):
            if c.get("k") in STMT_KINDS:
                self.stmt(c, g)
            else:
                self.expr(c, g)

    def stmt(self, n, g):
        """returns extra guards that hold for the statements after n in the
        enclosing sequence"""
        if not isinstance(n, dict):
            return ()
        k = n.get("k")
        if k not in STMT_KINDS:
            self.expr(n, g)
            return ()
        self.out[id(n)] = g
        if k == "seq":
            gg = g
            for c in n.get("b", []):
                if isinstance(c, dict) and c.get("k") == "label":
                    gg = g      # join point of gotos
                extra = self.stmt(c, gg)
                gg = gg + tuple(extra)
            return gg[len(g):]
        if k == "if":
            if "init" in n:
                self.stmt(n["init"], g)
            if "var" in n:
                self.stmt(n["var"], g)
            self.expr(n.get("c"), g)
            ex_t = self.stmt(n.get("t"), g + ((n.get("c"), True),)) or ()
            ex_e = ()
            if "e" in n:
                ex_e = self.stmt(n["e"], g + ((n.get("c"), False),)) or ()
            t_term = terminates(n.get("t"))
            e_term = terminates(n.get("e")) if "e" in n else False
            # what holds after the statement: the branch that can fall through, plus what held at its end
            # (`if (a) return; else if (b) return; else if (c) return;` leaves !a, !b, !c)
            if t_term and not e_term:
                return ((n.get("c"), False),) + tuple(ex_e)
            if e_term and not t_term:
                return ((n.get("c"), True),) + tuple(ex_t)
            return ()
        if k in ("while", "for"):
            if "i" in n:
                self.stmt(n["i"], g)
            if "var" in n:
                self.stmt(n["var"], g)
            gb = g
            if "c" in n:
                self.expr(n["c"], g)
                gb = g + ((n["c"], True),)
            self.stmt(n.get("b"), gb)
            if "n" in n:
                self.expr(n["n"], gb)
            return ()
        if k == "do":
            self.stmt(n.get("b"), g)
            self.expr(n.get("c"), g)
            return ()
        if k == "rangefor":
            self.expr(n.get("r"), g)
            if "v" in n:
                self.stmt(n["v"], g)
            self.stmt(n.get("b"), g)
            return ()
        if k == "switch":
            self.expr(n.get("c"), g)
            gg = g
            for c in n.get("b", []):
                if c.get("k") in ("case", "default"):
                    self.out[id(c)] = g
                    gg = g
                    continue
                extra = self.stmt(c, gg)
                gg = gg + tuple(extra)
            return ()
        if k == "decl":
            if "i" in n:
                self.expr(n["i"], g)
            return ()
        if k == "ret":
            if "v" in n:
                self.expr(n["v"], g)
            return ()
        if k == "label":
            return self.stmt(n.get("b"), g)
        for c in children(n):
            self.stmt(c, g)
        return ()


def guards(body):
    """id(node) -> tuple of (cond node, polarity) the node is control
    dependent on: enclosing if / loop / ?: / && / || conditions, plus the
    negation of earlier `if` conditions whose branch cannot fall through.
    NOTE: a guard established by an early exit inside a loop body or nested
    block only extends to the end of that block."""
    g = _Guards()
    g.stmt(body, ())
    return g.out
