#!/bin/sh
# Builds the crabfacts clang-14 plugin into /verif/build (offline).
set -e
HERE="$(cd "$(dirname "$0")" && pwd)"
OUT="$HERE/../build"
mkdir -p "$OUT"
SRC="$HERE/crabfacts.cc"
SO="$OUT/crabfacts.so"
if [ -f "$SO" ] && [ "$SO" -nt "$SRC" ]; then
  exit 0
fi
clang++ $(llvm-config-14 --cxxflags) -O1 -fno-rtti -fPIC -shared "$SRC" -o "$SO.tmp" \
  /usr/lib/llvm-14/lib/libclang-cpp.so.14 /usr/lib/llvm-14/lib/libLLVM-14.so
mv "$SO.tmp" "$SO"
