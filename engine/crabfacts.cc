// crabfacts: clang-14 frontend plugin that dumps normalised, *instantiated*
// function bodies (resolved callees) of seahorn/crab as JSON facts.
//
//   clang++ -fsyntax-only -fplugin=crabfacts.so -Xclang -plugin -Xclang crabfacts
//       -Xclang -plugin-arg-crabfacts -Xclang out=<file>
//       -Xclang -plugin-arg-crabfacts -Xclang root=<dir>      (repeatable)
//
// Only functions / classes whose definition lies under one of the roots are
// emitted.  Nothing is executed; this is a pure syntax-tree dump.  See
// /verif/DESIGN.md section 2.1 for the vocabulary.
#include "clang/AST/ASTConsumer.h"
#include "clang/AST/ASTContext.h"
#include "clang/AST/DeclCXX.h"
#include "clang/AST/DeclTemplate.h"
#include "clang/AST/ExprCXX.h"
#include "clang/AST/Mangle.h"
#include "clang/AST/RecursiveASTVisitor.h"
#include "clang/AST/StmtCXX.h"
#include "clang/Basic/SourceManager.h"
#include "clang/Frontend/CompilerInstance.h"
#include "clang/Frontend/FrontendPluginRegistry.h"
#include "clang/Lex/Lexer.h"
#include "llvm/Support/JSON.h"
#include "llvm/Support/raw_ostream.h"
#include <map>
#include <set>
#include <string>
#include <unordered_map>
#include <vector>

using namespace clang;

namespace {

struct Options {
  std::string Out;
  std::vector<std::string> Roots;
  bool AllowErrors = false;
};

class Emitter {
public:
  Emitter(ASTContext &C, const Options &O, llvm::raw_ostream &OS)
      : Ctx(C), SM(C.getSourceManager()), Opts(O), J(OS, 0), PP(C.getLangOpts()) {
    PP.SuppressTagKeyword = true;
    PP.Bool = true;
    PP.SuppressUnwrittenScope = false;
    Mangler.reset(C.createMangleContext());
  }

  ASTContext &Ctx;
  SourceManager &SM;
  const Options &Opts;
  llvm::json::OStream J;
  PrintingPolicy PP;
  std::unique_ptr<MangleContext> Mangler;

  std::unordered_map<const Decl *, unsigned> VarIds;
  std::unordered_map<const FunctionDecl *, unsigned> CalleeIds;
  std::vector<const FunctionDecl *> Callees;
  std::map<std::string, unsigned> TypeIds;
  std::vector<std::pair<std::string, std::string>> Types;
  std::map<std::string, unsigned> StrIds;
  std::vector<std::string> Strs;
  std::set<const Decl *> EmittedClasses;
  std::set<std::string> EmittedFns;

  // ---------------------------------------------------------------- utils
  bool fileUnderRoot(SourceLocation L, std::string &Rel) {
    if (L.isInvalid())
      return false;
    SourceLocation E = SM.getExpansionLoc(L);
    PresumedLoc P = SM.getPresumedLoc(E);
    if (P.isInvalid())
      return false;
    std::string F = P.getFilename();
    // normalise a/../b
    llvm::SmallString<256> Real(F);
    llvm::sys::path::remove_dots(Real, true);
    F = std::string(Real.str());
    for (const std::string &R : Opts.Roots) {
      if (F.size() > R.size() && F.compare(0, R.size(), R) == 0) {
        Rel = F;
        return true;
      }
    }
    return false;
  }

  unsigned lineOf(SourceLocation L) {
    if (L.isInvalid())
      return 0;
    return SM.getExpansionLineNumber(L);
  }
  unsigned colOf(SourceLocation L) {
    if (L.isInvalid())
      return 0;
    return SM.getExpansionColumnNumber(L);
  }

  unsigned strId(const std::string &S) {
    auto It = StrIds.find(S);
    if (It != StrIds.end())
      return It->second;
    unsigned Id = Strs.size();
    Strs.push_back(S);
    StrIds[S] = Id;
    return Id;
  }

  unsigned typeId(QualType T) {
    if (T.isNull())
      return strTypeId("<null>", "<null>");
    std::string S = T.getAsString(PP);
    std::string C = T.getCanonicalType().getAsString(PP);
    return strTypeId(S, C);
  }
  unsigned strTypeId(const std::string &S, const std::string &C) {
    std::string Key = S + "\x01" + C;
    auto It = TypeIds.find(Key);
    if (It != TypeIds.end())
      return It->second;
    unsigned Id = Types.size();
    Types.push_back({S, C});
    TypeIds[Key] = Id;
    return Id;
  }

  unsigned varId(const Decl *D) {
    D = D->getCanonicalDecl();
    auto It = VarIds.find(D);
    if (It != VarIds.end())
      return It->second;
    unsigned Id = VarIds.size() + 1;
    VarIds[D] = Id;
    return Id;
  }

  // qualified name with all template arguments erased
  std::string erasedCtx(const DeclContext *DC) {
    std::vector<std::string> Parts;
    while (DC && !DC->isTranslationUnit()) {
      if (const auto *NS = dyn_cast<NamespaceDecl>(DC)) {
        if (!NS->isAnonymousNamespace() && !NS->isInline())
          Parts.push_back(NS->getNameAsString());
        else if (NS->isAnonymousNamespace())
          Parts.push_back("(anon)");
      } else if (const auto *RD = dyn_cast<CXXRecordDecl>(DC)) {
        if (RD->isLambda())
          Parts.push_back("(lambda)");
        else if (RD->getIdentifier())
          Parts.push_back(RD->getNameAsString());
        else
          Parts.push_back("(anon)");
      } else if (const auto *FD = dyn_cast<FunctionDecl>(DC)) {
        Parts.push_back(FD->getNameAsString());
      } else if (const auto *ED = dyn_cast<EnumDecl>(DC)) {
        if (ED->getIdentifier())
          Parts.push_back(ED->getNameAsString());
      }
      DC = DC->getParent();
    }
    std::string R;
    for (auto It = Parts.rbegin(); It != Parts.rend(); ++It) {
      if (!R.empty())
        R += "::";
      R += *It;
    }
    return R;
  }
  std::string erasedName(const NamedDecl *D) {
    std::string P = erasedCtx(D->getDeclContext());
    std::string N = D->getNameAsString();
    if (isa<CXXConstructorDecl>(D))
      N = "(ctor)";
    else if (isa<CXXDestructorDecl>(D))
      N = "(dtor)";
    else if (isa<CXXConversionDecl>(D))
      N = "(conv)";
    if (const auto *RD = dyn_cast<CXXRecordDecl>(D))
      if (RD->isLambda())
        N = "(lambda)";
    if (const auto *TD = dyn_cast<TagDecl>(D))
      if (!TD->getIdentifier())
        if (const TypedefNameDecl *TN = TD->getTypedefNameForAnonDecl())
          N = TN->getNameAsString();
    return P.empty() ? N : P + "::" + N;
  }

  std::string classQN(const CXXRecordDecl *RD) {
    if (RD->isDependentContext() || RD->isLambda() || !RD->getIdentifier())
      return RD->getQualifiedNameAsString();
    return Ctx.getTypeDeclType(RD).getCanonicalType().getAsString(PP);
  }

  std::string macroStack(SourceLocation L) {
    // outermost > ... > innermost macro names the location is expanded from
    std::vector<std::string> Names;
    unsigned Guard = 0;
    while (L.isMacroID() && Guard++ < 32) {
      if (SM.isMacroBodyExpansion(L)) {
        StringRef N = Lexer::getImmediateMacroName(L, SM, Ctx.getLangOpts());
        if (!N.empty())
          Names.push_back(N.str());
        L = SM.getImmediateExpansionRange(L).getBegin();
      } else {
        // macro argument: go to where the argument was spelled in the caller
        L = SM.getImmediateSpellingLoc(L);
      }
    }
    std::string R;
    for (auto It = Names.rbegin(); It != Names.rend(); ++It) {
      if (!R.empty() && R.size() >= It->size() &&
          R.compare(R.size() - It->size(), It->size(), *It) == 0)
        continue;
      if (!R.empty())
        R += ">";
      R += *It;
    }
    return R;
  }

  std::string paramSig(const FunctionDecl *FD) {
    // parameter types of the *pattern* (so that instantiations agree)
    const FunctionDecl *P = FD->getTemplateInstantiationPattern();
    if (!P)
      P = FD;
    std::string S;
    for (const ParmVarDecl *PV : P->parameters()) {
      if (!S.empty())
        S += ",";
      S += PV->getType().getAsString(PP);
    }
    return S;
  }

  unsigned calleeId(const FunctionDecl *FD) {
    FD = FD->getCanonicalDecl();
    auto It = CalleeIds.find(FD);
    if (It != CalleeIds.end())
      return It->second;
    unsigned Id = Callees.size();
    Callees.push_back(FD);
    CalleeIds[FD] = Id;
    return Id;
  }

  void loc(const Stmt *S) {
    SourceLocation B = S->getBeginLoc();
    J.attribute("l", lineOf(B));
    J.attribute("cl", colOf(B));
  }

  // ----------------------------------------------------------- expressions
  const Expr *strip(const Expr *E) {
    for (;;) {
      if (!E)
        return E;
      if (const auto *X = dyn_cast<ImplicitCastExpr>(E)) {
        E = X->getSubExpr();
      } else if (const auto *X = dyn_cast<ParenExpr>(E)) {
        E = X->getSubExpr();
      } else if (const auto *X = dyn_cast<ExprWithCleanups>(E)) {
        E = X->getSubExpr();
      } else if (const auto *X = dyn_cast<MaterializeTemporaryExpr>(E)) {
        E = X->getSubExpr();
      } else if (const auto *X = dyn_cast<CXXBindTemporaryExpr>(E)) {
        E = X->getSubExpr();
      } else if (const auto *X = dyn_cast<ConstantExpr>(E)) {
        E = X->getSubExpr();
      } else if (const auto *X = dyn_cast<CXXStdInitializerListExpr>(E)) {
        E = X->getSubExpr();
      } else if (const auto *X = dyn_cast<SubstNonTypeTemplateParmExpr>(E)) {
        E = X->getReplacement();
      } else if (const auto *X = dyn_cast<CXXDefaultInitExpr>(E)) {
        E = X->getExpr();
      } else {
        return E;
      }
    }
  }

  void macroAttr(const Stmt *S, const std::string &ParentMacro,
                 std::string &Mine) {
    SourceLocation B = S->getBeginLoc();
    if (B.isMacroID())
      Mine = macroStack(B);
    else
      Mine.clear();
    if (Mine != ParentMacro)
      J.attribute("m", Mine);
  }

  void emitArgs(const char *Key, llvm::ArrayRef<const Expr *> Args,
                const std::string &PM) {
    J.attributeArray(Key, [&] {
      for (const Expr *A : Args)
        emitExpr(A, PM);
    });
  }

  void emitExpr(const Expr *E0, const std::string &PM) {
    const Expr *E = strip(E0);
    if (!E) {
      J.value(nullptr);
      return;
    }
    J.object([&] {
      std::string M;
      if (const auto *CE = dyn_cast<CXXOperatorCallExpr>(E)) {
        J.attribute("k", "call");
        macroAttr(E, PM, M);
        loc(E);
        const FunctionDecl *FD = CE->getDirectCallee();
        J.attribute("op", getOperatorSpelling(CE->getOperator()));
        if (FD)
          J.attribute("f", calleeId(FD));
        J.attribute("T", typeId(E->getType()));
        std::vector<const Expr *> Args(CE->arg_begin(), CE->arg_end());
        if (FD && isa<CXXMethodDecl>(FD) && !Args.empty()) {
          J.attributeBegin("o");
          emitExpr(Args[0], M);
          J.attributeEnd();
          Args.erase(Args.begin());
        }
        emitArgs("a", Args, M);
      } else if (const auto *CE = dyn_cast<CXXMemberCallExpr>(E)) {
        J.attribute("k", "call");
        macroAttr(E, PM, M);
        loc(E);
        const CXXMethodDecl *MD = CE->getMethodDecl();
        if (MD)
          J.attribute("f", calleeId(MD));
        J.attribute("T", typeId(E->getType()));
        const Expr *Obj = CE->getImplicitObjectArgument();
        if (Obj) {
          J.attributeBegin("o");
          emitExpr(Obj, M);
          J.attributeEnd();
        }
        if (const auto *ME = dyn_cast<MemberExpr>(strip(CE->getCallee()))) {
          if (ME->isArrow())
            J.attribute("arrow", true);
          if (ME->hasQualifier())
            J.attribute("qual", true); // Base::f() style, non-virtual dispatch
        }
        std::vector<const Expr *> Args(CE->arg_begin(), CE->arg_end());
        emitArgs("a", Args, M);
      } else if (const auto *CE = dyn_cast<CallExpr>(E)) {
        J.attribute("k", "call");
        macroAttr(E, PM, M);
        loc(E);
        const FunctionDecl *FD = CE->getDirectCallee();
        if (FD)
          J.attribute("f", calleeId(FD));
        else {
          J.attributeBegin("fx");
          emitExpr(CE->getCallee(), M);
          J.attributeEnd();
        }
        J.attribute("T", typeId(E->getType()));
        std::vector<const Expr *> Args(CE->arg_begin(), CE->arg_end());
        emitArgs("a", Args, M);
      } else if (const auto *CE = dyn_cast<CXXConstructExpr>(E)) {
        J.attribute("k", "ctor");
        macroAttr(E, PM, M);
        loc(E);
        const CXXConstructorDecl *CD = CE->getConstructor();
        J.attribute("f", calleeId(CD));
        J.attribute("T", typeId(E->getType()));
        if (CD->isCopyOrMoveConstructor())
          J.attribute("cp", true);
        if (isa<CXXTemporaryObjectExpr>(E))
          J.attribute("tmp", true);
        std::vector<const Expr *> Args(CE->arg_begin(), CE->arg_end());
        emitArgs("a", Args, M);
      } else if (const auto *ME = dyn_cast<MemberExpr>(E)) {
        J.attribute("k", "mem");
        macroAttr(E, PM, M);
        loc(E);
        const ValueDecl *VD = ME->getMemberDecl();
        J.attribute("n", VD->getNameAsString());
        if (const auto *FD = dyn_cast<FieldDecl>(VD))
          J.attribute("cls", strId(erasedName(FD->getParent())));
        if (isa<CXXMethodDecl>(VD))
          J.attribute("fn", calleeId(cast<FunctionDecl>(VD)));
        J.attribute("T", typeId(E->getType()));
        if (ME->isArrow())
          J.attribute("arrow", true);
        J.attributeBegin("b");
        emitExpr(ME->getBase(), M);
        J.attributeEnd();
      } else if (const auto *DR = dyn_cast<DeclRefExpr>(E)) {
        J.attribute("k", "ref");
        macroAttr(E, PM, M);
        loc(E);
        const ValueDecl *VD = DR->getDecl();
        J.attribute("n", VD->getNameAsString());
        if (isa<ParmVarDecl>(VD)) {
          J.attribute("rk", "param");
          J.attribute("id", varId(VD));
        } else if (const auto *V = dyn_cast<VarDecl>(VD)) {
          if (V->isLocalVarDecl() || V->isStaticLocal()) {
            J.attribute("rk", "local");
            J.attribute("id", varId(VD));
          } else {
            J.attribute("rk", "global");
            J.attribute("qn", erasedName(VD));
            J.attribute("qna", VD->getQualifiedNameAsString());
          }
        } else if (const auto *EC = dyn_cast<EnumConstantDecl>(VD)) {
          J.attribute("rk", "enum");
          if (const auto *ED = dyn_cast<EnumDecl>(EC->getDeclContext()))
            J.attribute("en", strId(erasedName(ED)));
          J.attribute("v", EC->getInitVal().getExtValue());
        } else if (const auto *FD = dyn_cast<FunctionDecl>(VD)) {
          J.attribute("rk", "fn");
          J.attribute("fn", calleeId(FD));
        } else if (isa<BindingDecl>(VD)) {
          J.attribute("rk", "local");
          J.attribute("id", varId(VD));
        } else {
          J.attribute("rk", "other");
        }
        J.attribute("T", typeId(E->getType()));
      } else if (isa<CXXThisExpr>(E)) {
        J.attribute("k", "this");
      } else if (const auto *BO = dyn_cast<BinaryOperator>(E)) {
        bool Asg = BO->isAssignmentOp();
        J.attribute("k", Asg ? "asg" : "bin");
        macroAttr(E, PM, M);
        loc(E);
        J.attribute("op", BO->getOpcodeStr());
        J.attribute("T", typeId(E->getType()));
        if (const auto *CAO = dyn_cast<CompoundAssignOperator>(BO))
          J.attribute("CT", typeId(CAO->getComputationResultType()));
        J.attributeBegin("L");
        emitExpr(BO->getLHS(), M);
        J.attributeEnd();
        J.attributeBegin("R");
        emitExpr(BO->getRHS(), M);
        J.attributeEnd();
        // operand types after the usual arithmetic conversions
        J.attribute("LT", typeId(BO->getLHS()->getType()));
        J.attribute("RT", typeId(BO->getRHS()->getType()));
      } else if (const auto *UO = dyn_cast<UnaryOperator>(E)) {
        J.attribute("k", "un");
        macroAttr(E, PM, M);
        loc(E);
        std::string Op = UnaryOperator::getOpcodeStr(UO->getOpcode()).str();
        if (UO->isPostfix())
          Op = "post" + Op;
        else if (UO->isIncrementDecrementOp())
          Op = "pre" + Op;
        J.attribute("op", Op);
        J.attribute("T", typeId(E->getType()));
        J.attributeBegin("e");
        emitExpr(UO->getSubExpr(), M);
        J.attributeEnd();
      } else if (const auto *CO = dyn_cast<ConditionalOperator>(E)) {
        J.attribute("k", "cond");
        macroAttr(E, PM, M);
        loc(E);
        J.attribute("T", typeId(E->getType()));
        J.attributeBegin("c");
        emitExpr(CO->getCond(), M);
        J.attributeEnd();
        J.attributeBegin("t");
        emitExpr(CO->getTrueExpr(), M);
        J.attributeEnd();
        J.attributeBegin("e");
        emitExpr(CO->getFalseExpr(), M);
        J.attributeEnd();
      } else if (const auto *IL = dyn_cast<IntegerLiteral>(E)) {
        J.attribute("k", "lit");
        loc(E);
        llvm::SmallString<40> S;
        IL->getValue().toString(S, 10, IL->getType()->isSignedIntegerType());
        J.attribute("v", S.str());
        J.attribute("T", typeId(E->getType()));
      } else if (const auto *BL = dyn_cast<CXXBoolLiteralExpr>(E)) {
        J.attribute("k", "lit");
        loc(E);
        J.attribute("v", BL->getValue() ? "true" : "false");
        J.attribute("T", typeId(E->getType()));
      } else if (const auto *SL = dyn_cast<StringLiteral>(E)) {
        J.attribute("k", "lit");
        loc(E);
        if (SL->isAscii() || SL->isUTF8())
          J.attribute("v", SL->getString());
        else
          J.attribute("v", "<wide>");
        J.attribute("str", true);
      } else if (isa<CXXNullPtrLiteralExpr>(E) || isa<GNUNullExpr>(E)) {
        J.attribute("k", "lit");
        loc(E);
        J.attribute("v", "nullptr");
      } else if (const auto *CL = dyn_cast<CharacterLiteral>(E)) {
        J.attribute("k", "lit");
        loc(E);
        J.attribute("v", std::to_string(CL->getValue()));
        J.attribute("T", typeId(E->getType()));
      } else if (const auto *FL = dyn_cast<FloatingLiteral>(E)) {
        J.attribute("k", "lit");
        loc(E);
        llvm::SmallString<40> S;
        FL->getValue().toString(S);
        J.attribute("v", S.str());
        J.attribute("T", typeId(E->getType()));
      } else if (const auto *LE = dyn_cast<LambdaExpr>(E)) {
        J.attribute("k", "lambda");
        macroAttr(E, PM, M);
        loc(E);
        const CXXMethodDecl *Op = LE->getCallOperator();
        if (Op) {
          J.attribute("fn", calleeId(Op));
          J.attributeArray("params", [&] {
            for (const ParmVarDecl *P : Op->parameters())
              J.object([&] {
                J.attribute("n", P->getNameAsString());
                J.attribute("id", varId(P));
                J.attribute("T", typeId(P->getType()));
              });
          });
        }
        J.attributeArray("caps", [&] {
          for (const LambdaCapture &C : LE->captures()) {
            J.object([&] {
              if (C.capturesThis())
                J.attribute("n", "this");
              else if (C.capturesVariable()) {
                J.attribute("n", C.getCapturedVar()->getNameAsString());
                J.attribute("id", varId(C.getCapturedVar()));
              }
              J.attribute("byref", C.getCaptureKind() == LCK_ByRef);
            });
          }
        });
        J.attributeBegin("b");
        emitStmt(LE->getBody(), M);
        J.attributeEnd();
      } else if (const auto *EC = dyn_cast<ExplicitCastExpr>(E)) {
        J.attribute("k", "cast");
        macroAttr(E, PM, M);
        loc(E);
        const char *CK = "c";
        if (isa<CXXStaticCastExpr>(E))
          CK = "static";
        else if (isa<CXXConstCastExpr>(E))
          CK = "const";
        else if (isa<CXXReinterpretCastExpr>(E))
          CK = "reinterpret";
        else if (isa<CXXDynamicCastExpr>(E))
          CK = "dynamic";
        else if (isa<CXXFunctionalCastExpr>(E))
          CK = "functional";
        J.attribute("ck", CK);
        J.attribute("T", typeId(EC->getTypeAsWritten()));
        J.attributeBegin("e");
        emitExpr(EC->getSubExpr(), M);
        J.attributeEnd();
      } else if (const auto *NE = dyn_cast<CXXNewExpr>(E)) {
        J.attribute("k", "new");
        macroAttr(E, PM, M);
        loc(E);
        J.attribute("T", typeId(NE->getAllocatedType()));
        if (NE->getInitializer()) {
          J.attributeBegin("e");
          emitExpr(NE->getInitializer(), M);
          J.attributeEnd();
        }
      } else if (const auto *DE = dyn_cast<CXXDeleteExpr>(E)) {
        J.attribute("k", "delete");
        macroAttr(E, PM, M);
        loc(E);
        J.attributeBegin("e");
        emitExpr(DE->getArgument(), M);
        J.attributeEnd();
      } else if (const auto *IL = dyn_cast<InitListExpr>(E)) {
        J.attribute("k", "ilist");
        macroAttr(E, PM, M);
        loc(E);
        J.attribute("T", typeId(E->getType()));
        std::vector<const Expr *> Args;
        for (unsigned I = 0; I < IL->getNumInits(); ++I)
          Args.push_back(IL->getInit(I));
        emitArgs("a", Args, M);
      } else if (const auto *AS = dyn_cast<ArraySubscriptExpr>(E)) {
        J.attribute("k", "idx");
        macroAttr(E, PM, M);
        loc(E);
        J.attribute("T", typeId(E->getType()));
        J.attributeBegin("b");
        emitExpr(AS->getBase(), M);
        J.attributeEnd();
        J.attributeBegin("i");
        emitExpr(AS->getIdx(), M);
        J.attributeEnd();
      } else if (const auto *DA = dyn_cast<CXXDefaultArgExpr>(E)) {
        J.attribute("k", "dflt");
        J.attributeBegin("e");
        emitExpr(DA->getExpr(), PM);
        J.attributeEnd();
      } else if (const auto *UE = dyn_cast<UnaryExprOrTypeTraitExpr>(E)) {
        J.attribute("k", "sizeof");
        loc(E);
        J.attribute("T", typeId(UE->getTypeOfArgument()));
      } else if (const auto *SV = dyn_cast<CXXScalarValueInitExpr>(E)) {
        J.attribute("k", "lit");
        loc(E);
        J.attribute("v", "0");
        J.attribute("T", typeId(SV->getType()));
      } else if (const auto *TE = dyn_cast<CXXThrowExpr>(E)) {
        J.attribute("k", "throw");
        loc(E);
        if (TE->getSubExpr()) {
          J.attributeBegin("e");
          emitExpr(TE->getSubExpr(), M);
          J.attributeEnd();
        }
      } else if (const auto *OV = dyn_cast<OpaqueValueExpr>(E)) {
        J.attribute("k", "opaque");
        if (OV->getSourceExpr()) {
          J.attributeBegin("e");
          emitExpr(OV->getSourceExpr(), M);
          J.attributeEnd();
        }
      } else {
        J.attribute("k", "other");
        J.attribute("cls", E->getStmtClassName());
        macroAttr(E, PM, M);
        loc(E);
        J.attribute("T", typeId(E->getType()));
        J.attributeArray("ch", [&] {
          for (const Stmt *C : E->children()) {
            if (!C)
              continue;
            if (const auto *CE = dyn_cast<Expr>(C))
              emitExpr(CE, M);
            else
              emitStmt(C, M);
          }
        });
      }
    });
  }

  // ------------------------------------------------------------ statements
  void emitVarDecl(const VarDecl *VD, const std::string &PM) {
    J.object([&] {
      J.attribute("k", "decl");
      J.attribute("l", lineOf(VD->getLocation()));
      J.attribute("cl", colOf(VD->getLocation()));
      std::string M;
      if (VD->getLocation().isMacroID())
        M = macroStack(VD->getLocation());
      if (M != PM)
        J.attribute("m", M);
      J.attribute("n", VD->getNameAsString());
      J.attribute("id", varId(VD));
      J.attribute("T", typeId(VD->getType()));
      if (VD->isStaticLocal())
        J.attribute("static", true);
      if (VD->hasInit()) {
        J.attributeBegin("i");
        emitExpr(VD->getInit(), M);
        J.attributeEnd();
      }
    });
  }

  void flattenSwitchBody(const Stmt *S, const std::string &PM) {
    if (!S)
      return;
    if (const auto *CS = dyn_cast<CompoundStmt>(S)) {
      for (const Stmt *C : CS->body())
        flattenSwitchBody(C, PM);
    } else if (const auto *Case = dyn_cast<CaseStmt>(S)) {
      J.object([&] {
        J.attribute("k", "case");
        loc(S);
        J.attributeBegin("v");
        emitExpr(Case->getLHS(), PM);
        J.attributeEnd();
      });
      flattenSwitchBody(Case->getSubStmt(), PM);
    } else if (const auto *Def = dyn_cast<DefaultStmt>(S)) {
      J.object([&] {
        J.attribute("k", "default");
        loc(S);
      });
      flattenSwitchBody(Def->getSubStmt(), PM);
    } else {
      emitStmt(S, PM);
    }
  }

  void emitStmt(const Stmt *S, const std::string &PM) {
    if (!S) {
      J.value(nullptr);
      return;
    }
    if (const auto *E = dyn_cast<Expr>(S)) {
      emitExpr(E, PM);
      return;
    }
    if (const auto *DS = dyn_cast<DeclStmt>(S)) {
      // a DeclStmt with several declarators becomes a seq
      unsigned N = 0;
      for (const Decl *D : DS->decls())
        if (isa<VarDecl>(D))
          ++N;
      if (N == 1) {
        for (const Decl *D : DS->decls())
          if (const auto *VD = dyn_cast<VarDecl>(D))
            emitVarDecl(VD, PM);
        return;
      }
      J.object([&] {
        J.attribute("k", "seq");
        loc(S);
        J.attributeArray("b", [&] {
          for (const Decl *D : DS->decls())
            if (const auto *VD = dyn_cast<VarDecl>(D))
              emitVarDecl(VD, PM);
        });
      });
      return;
    }
    J.object([&] {
      std::string M;
      if (const auto *CS = dyn_cast<CompoundStmt>(S)) {
        J.attribute("k", "seq");
        macroAttr(S, PM, M);
        loc(S);
        J.attributeArray("b", [&] {
          for (const Stmt *C : CS->body()) {
            if (isa<NullStmt>(C))
              continue;
            emitStmt(C, M);
          }
        });
      } else if (const auto *IS = dyn_cast<IfStmt>(S)) {
        J.attribute("k", "if");
        macroAttr(S, PM, M);
        loc(S);
        if (IS->getInit()) {
          J.attributeBegin("init");
          emitStmt(IS->getInit(), M);
          J.attributeEnd();
        }
        if (IS->getConditionVariable()) {
          J.attributeBegin("var");
          emitVarDecl(IS->getConditionVariable(), M);
          J.attributeEnd();
        }
        J.attributeBegin("c");
        emitExpr(IS->getCond(), M);
        J.attributeEnd();
        J.attributeBegin("t");
        emitStmt(IS->getThen(), M);
        J.attributeEnd();
        if (IS->getElse()) {
          J.attributeBegin("e");
          emitStmt(IS->getElse(), M);
          J.attributeEnd();
        }
      } else if (const auto *WS = dyn_cast<WhileStmt>(S)) {
        J.attribute("k", "while");
        macroAttr(S, PM, M);
        loc(S);
        if (WS->getConditionVariable()) {
          J.attributeBegin("var");
          emitVarDecl(WS->getConditionVariable(), M);
          J.attributeEnd();
        }
        J.attributeBegin("c");
        emitExpr(WS->getCond(), M);
        J.attributeEnd();
        J.attributeBegin("b");
        emitStmt(WS->getBody(), M);
        J.attributeEnd();
      } else if (const auto *DS = dyn_cast<DoStmt>(S)) {
        J.attribute("k", "do");
        macroAttr(S, PM, M);
        loc(S);
        J.attributeBegin("b");
        emitStmt(DS->getBody(), M);
        J.attributeEnd();
        J.attributeBegin("c");
        emitExpr(DS->getCond(), M);
        J.attributeEnd();
      } else if (const auto *FS = dyn_cast<ForStmt>(S)) {
        J.attribute("k", "for");
        macroAttr(S, PM, M);
        loc(S);
        if (FS->getInit()) {
          J.attributeBegin("i");
          emitStmt(FS->getInit(), M);
          J.attributeEnd();
        }
        if (FS->getCond()) {
          J.attributeBegin("c");
          emitExpr(FS->getCond(), M);
          J.attributeEnd();
        }
        if (FS->getInc()) {
          J.attributeBegin("n");
          emitExpr(FS->getInc(), M);
          J.attributeEnd();
        }
        J.attributeBegin("b");
        emitStmt(FS->getBody(), M);
        J.attributeEnd();
      } else if (const auto *RF = dyn_cast<CXXForRangeStmt>(S)) {
        J.attribute("k", "rangefor");
        macroAttr(S, PM, M);
        loc(S);
        J.attributeBegin("v");
        emitVarDecl(RF->getLoopVariable(), M);
        J.attributeEnd();
        J.attributeBegin("r");
        emitExpr(RF->getRangeInit(), M);
        J.attributeEnd();
        J.attributeBegin("b");
        emitStmt(RF->getBody(), M);
        J.attributeEnd();
      } else if (const auto *SS = dyn_cast<SwitchStmt>(S)) {
        J.attribute("k", "switch");
        macroAttr(S, PM, M);
        loc(S);
        J.attributeBegin("c");
        emitExpr(SS->getCond(), M);
        J.attributeEnd();
        J.attribute("allenum", SS->isAllEnumCasesCovered());
        J.attributeArray("b", [&] { flattenSwitchBody(SS->getBody(), M); });
      } else if (const auto *RS = dyn_cast<ReturnStmt>(S)) {
        J.attribute("k", "ret");
        macroAttr(S, PM, M);
        loc(S);
        if (RS->getRetValue()) {
          J.attributeBegin("v");
          emitExpr(RS->getRetValue(), M);
          J.attributeEnd();
        }
      } else if (isa<BreakStmt>(S)) {
        J.attribute("k", "break");
        loc(S);
      } else if (isa<ContinueStmt>(S)) {
        J.attribute("k", "continue");
        loc(S);
      } else if (const auto *GS = dyn_cast<GotoStmt>(S)) {
        J.attribute("k", "goto");
        loc(S);
        J.attribute("n", GS->getLabel()->getNameAsString());
      } else if (const auto *LS = dyn_cast<LabelStmt>(S)) {
        J.attribute("k", "label");
        loc(S);
        J.attribute("n", LS->getDecl()->getNameAsString());
        J.attributeBegin("b");
        emitStmt(LS->getSubStmt(), PM);
        J.attributeEnd();
      } else if (const auto *TS = dyn_cast<CXXTryStmt>(S)) {
        J.attribute("k", "try");
        loc(S);
        J.attributeBegin("b");
        emitStmt(TS->getTryBlock(), PM);
        J.attributeEnd();
        J.attributeArray("h", [&] {
          for (unsigned I = 0; I < TS->getNumHandlers(); ++I)
            emitStmt(TS->getHandler(I)->getHandlerBlock(), PM);
        });
      } else if (isa<NullStmt>(S)) {
        J.attribute("k", "seq");
        J.attributeArray("b", [&] {});
      } else if (const auto *AS = dyn_cast<AttributedStmt>(S)) {
        J.attribute("k", "seq");
        J.attributeArray("b", [&] { emitStmt(AS->getSubStmt(), PM); });
      } else {
        J.attribute("k", "otherstmt");
        J.attribute("cls", S->getStmtClassName());
        loc(S);
        J.attributeArray("ch", [&] {
          for (const Stmt *C : S->children())
            if (C)
              emitStmt(C, PM);
        });
      }
    });
  }

  // --------------------------------------------------------------- records
  void describeFunction(const FunctionDecl *FD) {
    // attributes shared by function records and callee descriptors
    J.attribute("qn", FD->getQualifiedNameAsString());
    J.attribute("pk", erasedName(FD));
    std::string N = FD->getNameAsString();
    J.attribute("name", N);
    J.attribute("psig", paramSig(FD));
    J.attribute("np", (int64_t)FD->getNumParams());
    J.attribute("ret", typeId(FD->getReturnType()));
    if (FD->isOverloadedOperator())
      J.attribute("op", getOperatorSpelling(FD->getOverloadedOperator()));
    if (FD->isNoReturn())
      J.attribute("noreturn", true);
    if (const auto *MD = dyn_cast<CXXMethodDecl>(FD)) {
      const CXXRecordDecl *RD = MD->getParent();
      J.attribute("cls", classQN(RD));
      if (const auto *Spec = dyn_cast<ClassTemplateSpecializationDecl>(RD)) {
        std::string A;
        llvm::raw_string_ostream OS(A);
        printTemplateArgumentList(OS, Spec->getTemplateArgs().asArray(), PP);
        OS.flush();
        J.attribute("targs", strId(A));
      }
      J.attribute("cpk", erasedName(RD));
      if (MD->isConst())
        J.attribute("const", true);
      if (MD->isVirtual())
        J.attribute("virtual", true);
      if (MD->isPure())
        J.attribute("pure", true);
      if (MD->isStatic())
        J.attribute("static", true);
      if (RD->isLambda())
        J.attribute("lambda", true);
      if (const auto *CD = dyn_cast<CXXConstructorDecl>(MD)) {
        J.attribute("ctor", CD->isCopyConstructor()
                                ? "copy"
                                : CD->isMoveConstructor()
                                      ? "move"
                                      : CD->isDefaultConstructor() ? "default"
                                                                   : "other");
      }
      if (isa<CXXDestructorDecl>(MD))
        J.attribute("dtor", true);
      if (MD->isCopyAssignmentOperator())
        J.attribute("assignop", "copy");
      else if (MD->isMoveAssignmentOperator())
        J.attribute("assignop", "move");
      if (MD->size_overridden_methods() > 0) {
        J.attributeArray("overrides", [&] {
          for (const CXXMethodDecl *O : MD->overridden_methods())
            J.value(erasedName(O));
        });
      }
    }
    if (FD->isImplicit())
      J.attribute("implicit", true);
    if (FD->isDefaulted())
      J.attribute("defaulted", true);
    if (FD->isDeleted())
      J.attribute("deleted", true);
    std::string Rel;
    SourceLocation L = FD->getLocation();
    if (const FunctionDecl *Def = FD->getDefinition())
      L = Def->getLocation();
    // an instantiated member defined out of line: the body lives where the
    // pattern's definition is, not at the in-class declaration
    if (const FunctionDecl *P = FD->getTemplateInstantiationPattern()) {
      const FunctionDecl *PD = nullptr;
      if (P->isDefined(PD) && PD)
        L = PD->getLocation();
    }
    if (fileUnderRoot(L, Rel)) {
      J.attribute("file", Rel);
      J.attribute("line", lineOf(L));
    } else if (L.isValid()) {
      PresumedLoc P = SM.getPresumedLoc(SM.getExpansionLoc(L));
      if (P.isValid())
        J.attribute("xfile", P.getFilename());
    }
  }

  void emitFunction(const FunctionDecl *FD) {
    if (!FD->doesThisDeclarationHaveABody())
      return;
    if (FD->isDependentContext())
      return;
    if (FD->isImplicit() && !FD->isDefaulted())
      return;
    std::string Rel;
    if (!fileUnderRoot(FD->getLocation(), Rel))
      return;
    if (const auto *MD = dyn_cast<CXXMethodDecl>(FD))
      if (MD->getParent()->isLambda())
        return; // lambdas are emitted inline
    std::string Mangled;
    if (isa<CXXConstructorDecl>(FD) || isa<CXXDestructorDecl>(FD)) {
      llvm::raw_string_ostream OS(Mangled);
      if (const auto *CD = dyn_cast<CXXConstructorDecl>(FD))
        Mangler->mangleName(GlobalDecl(CD, Ctor_Complete), OS);
      else
        Mangler->mangleName(GlobalDecl(cast<CXXDestructorDecl>(FD), Dtor_Complete), OS);
    } else if (Mangler->shouldMangleDeclName(FD)) {
      llvm::raw_string_ostream OS(Mangled);
      Mangler->mangleName(GlobalDecl(FD), OS);
    } else {
      Mangled = FD->getQualifiedNameAsString();
    }
    if (!EmittedFns.insert(Mangled).second)
      return;
    J.object([&] {
      J.attribute("kind", "fn");
      J.attribute("mn", Mangled);
      describeFunction(FD);
      J.attribute("endline", lineOf(FD->getEndLoc()));
      if (FD->getLocation().isMacroID())
        J.attribute("macro", macroStack(FD->getLocation()));
      if (FD->getTemplateInstantiationPattern() ||
          FD->isTemplateInstantiation())
        J.attribute("inst", true);
      if (const FunctionDecl *P = FD->getTemplateInstantiationPattern()) {
        // explicit/partial specialisations have their own location
        J.attribute("pline", lineOf(P->getLocation()));
      }
      J.attributeArray("params", [&] {
        for (const ParmVarDecl *P : FD->parameters())
          J.object([&] {
            J.attribute("n", P->getNameAsString());
            J.attribute("id", varId(P));
            J.attribute("T", typeId(P->getType()));
          });
      });
      if (const auto *CD = dyn_cast<CXXConstructorDecl>(FD)) {
        J.attributeArray("inits", [&] {
          for (const CXXCtorInitializer *I : CD->inits()) {
            J.object([&] {
              if (I->isAnyMemberInitializer())
                J.attribute("field", I->getAnyMember()->getNameAsString());
              else if (I->isBaseInitializer()) {
                if (const CXXRecordDecl *BD = I->getBaseClass()->getAsCXXRecordDecl())
                  J.attribute("base", erasedName(BD));
                else
                  J.attribute("base", "?");
              } else if (I->isDelegatingInitializer())
                J.attribute("delegating", true);
              J.attribute("written", I->isWritten());
              J.attribute("l", lineOf(I->getSourceLocation()));
              J.attributeBegin("e");
              emitExpr(I->getInit(), "");
              J.attributeEnd();
            });
          }
        });
      }
      J.attributeBegin("body");
      std::string M0;
      if (FD->getLocation().isMacroID())
        M0 = macroStack(FD->getLocation());
      emitStmt(FD->getBody(), M0);
      J.attributeEnd();
    });
  }

  void emitClass(const CXXRecordDecl *RD) {
    if (!RD->isCompleteDefinition() || RD->isLambda())
      return;
    std::string Rel;
    SourceLocation CL = RD->getLocation();
    // an explicitly instantiated specialisation is located at the point of
    // instantiation: file it under the template it was instantiated from
    if (const CXXRecordDecl *Pat = RD->getTemplateInstantiationPattern())
      CL = Pat->getLocation();
    if (!fileUnderRoot(CL, Rel))
      return;
    bool Dep = RD->isDependentContext();
    if (!EmittedClasses.insert(RD->getCanonicalDecl()).second)
      return;
    J.object([&] {
      J.attribute("kind", "class");
      J.attribute("qn", classQN(RD));
      J.attribute("pk", erasedName(RD));
      if (const auto *Spec = dyn_cast<ClassTemplateSpecializationDecl>(RD)) {
        std::string A;
        llvm::raw_string_ostream OS(A);
        printTemplateArgumentList(OS, Spec->getTemplateArgs().asArray(), PP);
        OS.flush();
        J.attribute("targs", A);
      }
      J.attribute("file", Rel);
      J.attribute("line", lineOf(CL));
      if (Dep)
        J.attribute("dependent", true);
      if (!Dep) {
        J.attribute("abstract", RD->isAbstract());
        J.attribute("polymorphic", RD->isPolymorphic());
      }
      if (RD->hasAttr<FinalAttr>())
        J.attribute("final", true);
      J.attributeArray("bases", [&] {
        for (const CXXBaseSpecifier &B : RD->bases()) {
          J.object([&] {
            J.attribute("T", B.getType().getAsString(PP));
            if (const CXXRecordDecl *BD = B.getType()->getAsCXXRecordDecl())
              J.attribute("pk", erasedName(BD));
            else if (const auto *TST =
                         B.getType()->getAs<TemplateSpecializationType>()) {
              if (TemplateDecl *TD = TST->getTemplateName().getAsTemplateDecl())
                J.attribute("pk", erasedName(TD));
            }
          });
        }
      });
      J.attributeArray("fields", [&] {
        for (const Decl *D : RD->decls()) {
          if (const auto *F = dyn_cast<FieldDecl>(D)) {
            J.object([&] {
              J.attribute("n", F->getNameAsString());
              J.attribute("T", F->getType().getAsString(PP));
              J.attribute("CT", F->getType().getCanonicalType().getAsString(PP));
              J.attribute("acc", (int64_t)F->getAccess());
              J.attribute("l", lineOf(F->getLocation()));
              if (F->isMutable())
                J.attribute("mutable", true);
              if (F->hasInClassInitializer())
                J.attribute("init", true);
            });
          } else if (const auto *V = dyn_cast<VarDecl>(D)) {
            J.object([&] {
              J.attribute("n", V->getNameAsString());
              J.attribute("T", V->getType().getAsString(PP));
              J.attribute("static", true);
            });
          }
        }
      });
      J.attributeArray("methods", [&] {
        for (const Decl *D : RD->decls()) {
          const CXXMethodDecl *MD = dyn_cast<CXXMethodDecl>(D);
          if (!MD)
            if (const auto *FT = dyn_cast<FunctionTemplateDecl>(D))
              MD = dyn_cast<CXXMethodDecl>(FT->getTemplatedDecl());
          if (!MD)
            continue;
          J.object([&] {
            J.attribute("name", MD->getNameAsString());
            J.attribute("pk", erasedName(MD));
            J.attribute("psig", paramSig(MD));
            J.attribute("l", lineOf(MD->getLocation()));
            if (MD->isConst())
              J.attribute("const", true);
            if (MD->isVirtual())
              J.attribute("virtual", true);
            if (MD->isPure())
              J.attribute("pure", true);
            if (MD->isStatic())
              J.attribute("static", true);
            if (MD->isImplicit())
              J.attribute("implicit", true);
            if (MD->isDeleted())
              J.attribute("deleted", true);
            if (MD->isDefaulted())
              J.attribute("defaulted", true);
            if (MD->isUserProvided())
              J.attribute("userprovided", true);
            J.attribute("acc", (int64_t)MD->getAccess());
            bool HasBody = false;
            const FunctionDecl *Def = nullptr;
            if (MD->isDefined(Def))
              HasBody = true;
            else if (MD->getTemplateInstantiationPattern() &&
                     MD->getTemplateInstantiationPattern()->isDefined(Def))
              HasBody = true; // body exists in the pattern (maybe uninstantiated)
            J.attribute("hasbody", HasBody);
            if (MD->getLocation().isMacroID())
              J.attribute("macro", macroStack(MD->getLocation()));
            if (const auto *CD = dyn_cast<CXXConstructorDecl>(MD))
              J.attribute("ctor", CD->isCopyConstructor()
                                      ? "copy"
                                      : CD->isMoveConstructor() ? "move"
                                                                : "other");
            if (MD->isCopyAssignmentOperator())
              J.attribute("assignop", "copy");
            else if (MD->isMoveAssignmentOperator())
              J.attribute("assignop", "move");
            if (MD->size_overridden_methods() > 0)
              J.attributeArray("overrides", [&] {
                for (const CXXMethodDecl *O : MD->overridden_methods())
                  J.value(erasedName(O));
              });
          });
        }
      });
      J.attributeArray("friends", [&] {
        for (const FriendDecl *F : RD->friends()) {
          if (const NamedDecl *ND = F->getFriendDecl())
            J.value(erasedName(ND));
          else if (TypeSourceInfo *TSI = F->getFriendType())
            J.value(TSI->getType().getAsString(PP));
        }
      });
    });
  }

  void emitEnum(const EnumDecl *ED) {
    if (!ED->isCompleteDefinition())
      return;
    std::string Rel;
    if (!fileUnderRoot(ED->getLocation(), Rel))
      return;
    if (ED->isDependentContext() && ED->getDeclContext()->isDependentContext()) {
      // still useful: enumerators do not depend on template parameters
    }
    J.object([&] {
      J.attribute("kind", "enum");
      J.attribute("pk", erasedName(ED));
      J.attribute("file", Rel);
      J.attribute("line", lineOf(ED->getLocation()));
      J.attributeArray("items", [&] {
        for (const EnumConstantDecl *EC : ED->enumerators())
          J.object([&] {
            J.attribute("n", EC->getNameAsString());
            J.attribute("v", EC->getInitVal().getExtValue());
          });
      });
    });
  }

  void emitPattern(const FunctionDecl *FD) {
    // a template pattern (dependent) with a body: recorded so that the rule
    // library can tell which patterns no unit instantiated
    std::string Rel;
    if (!fileUnderRoot(FD->getLocation(), Rel))
      return;
    if (const auto *MD = dyn_cast<CXXMethodDecl>(FD))
      if (MD->getParent()->isLambda())
        return;
    J.object([&] {
      J.attribute("kind", "pat");
      J.attribute("pk", erasedName(FD));
      J.attribute("psig", paramSig(FD));
      J.attribute("file", Rel);
      J.attribute("line", lineOf(FD->getLocation()));
      J.attribute("endline", lineOf(FD->getEndLoc()));
      if (FD->getLocation().isMacroID())
        J.attribute("macro", macroStack(FD->getLocation()));
    });
  }
};

class Visitor : public RecursiveASTVisitor<Visitor> {
public:
  explicit Visitor(Emitter &E) : Em(E) {}
  bool shouldVisitTemplateInstantiations() const { return true; }
  bool shouldVisitImplicitCode() const { return true; }
  // do not descend into statements: function bodies are emitted wholesale
  bool TraverseStmt(Stmt *S) {
    if (!S)
      return true;
    // but local classes / lambdas inside bodies carry decls we do not need
    return true;
  }
  bool VisitFunctionDecl(FunctionDecl *FD) {
    if (FD->doesThisDeclarationHaveABody()) {
      if (FD->isDependentContext())
        Em.emitPattern(FD);
      else
        Em.emitFunction(FD);
    }
    return true;
  }
  bool VisitCXXRecordDecl(CXXRecordDecl *RD) {
    if (RD->isThisDeclarationADefinition())
      Em.emitClass(RD);
    return true;
  }
  bool VisitEnumDecl(EnumDecl *ED) {
    Em.emitEnum(ED);
    return true;
  }
  Emitter &Em;
};

class Consumer : public ASTConsumer {
public:
  Consumer(CompilerInstance &CI, Options O) : CI(CI), Opts(std::move(O)) {}
  void HandleTranslationUnit(ASTContext &Ctx) override {
    if (CI.getDiagnostics().hasErrorOccurred() && !Opts.AllowErrors) {
      llvm::errs() << "crabfacts: errors in translation unit, no facts written\n";
      return;
    }
    std::error_code EC;
    llvm::raw_fd_ostream OS(Opts.Out, EC);
    if (EC) {
      llvm::errs() << "crabfacts: cannot open " << Opts.Out << "\n";
      return;
    }
    Emitter Em(Ctx, Opts, OS);
    Em.J.objectBegin();
    Em.J.attributeBegin("records");
    Em.J.arrayBegin();
    Visitor V(Em);
    V.TraverseDecl(Ctx.getTranslationUnitDecl());
    Em.J.arrayEnd();
    Em.J.attributeEnd();
    // callee table (may grow while being emitted: describeFunction does not
    // add callees, so a plain loop is fine)
    Em.J.attributeBegin("callees");
    Em.J.arrayBegin();
    for (size_t I = 0; I < Em.Callees.size(); ++I) {
      const FunctionDecl *FD = Em.Callees[I];
      Em.J.object([&] { Em.describeFunction(FD); });
    }
    Em.J.arrayEnd();
    Em.J.attributeEnd();
    Em.J.attributeBegin("types");
    Em.J.arrayBegin();
    for (auto &T : Em.Types) {
      Em.J.arrayBegin();
      Em.J.value(T.first);
      Em.J.value(T.second);
      Em.J.arrayEnd();
    }
    Em.J.arrayEnd();
    Em.J.attributeEnd();
    Em.J.attributeBegin("strings");
    Em.J.arrayBegin();
    for (auto &S : Em.Strs)
      Em.J.value(S);
    Em.J.arrayEnd();
    Em.J.attributeEnd();
    Em.J.objectEnd();
    OS << "\n";
  }
  CompilerInstance &CI;
  Options Opts;
};

class Action : public PluginASTAction {
protected:
  std::unique_ptr<ASTConsumer> CreateASTConsumer(CompilerInstance &CI,
                                                 llvm::StringRef) override {
    return std::make_unique<Consumer>(CI, Opts);
  }
  bool ParseArgs(const CompilerInstance &,
                 const std::vector<std::string> &Args) override {
    for (const std::string &A : Args) {
      if (A.compare(0, 4, "out=") == 0)
        Opts.Out = A.substr(4);
      else if (A.compare(0, 5, "root=") == 0)
        Opts.Roots.push_back(A.substr(5));
      else if (A == "allowerrors=1")
        Opts.AllowErrors = true;
    }
    if (Opts.Out.empty())
      Opts.Out = "crabfacts.json";
    return true;
  }
  PluginASTAction::ActionType getActionType() override {
    return ReplaceAction;
  }
  Options Opts;
};

} // namespace

static FrontendPluginRegistry::Add<Action> X("crabfacts",
                                             "dump crab facts as JSON");
