// F10 (C20): q_number(num, den) and q_number("n/d") store the fraction without
// mpq_canonicalize although mpq_cmp / mpq_equal-style comparisons, rounding and
// sign tests assume GMP's canonical form (positive denominator, lowest terms).
#include <crab/numbers/bignums.hpp>
#include <crab/support/os.hpp>
using namespace ikos;
int main() {
  int bad = 0;
  q_number a(z_number(7), z_number(-2)); // -3.5
  if (!(a < q_number(0))) { crab::outs() << "FAIL: 7/-2 < 0 is false\n"; bad++; }
  if (a.round_to_lower() != z_number(-4)) { crab::outs() << "FAIL: floor(7/-2) = " << a.round_to_lower() << " (expected -4)\n"; bad++; }
  if (a.round_to_upper() != z_number(-3)) { crab::outs() << "FAIL: ceil(7/-2) = " << a.round_to_upper() << " (expected -3)\n"; bad++; }
  q_number b("7/-2", 10); // accepted by mpq_set_str
  if (!(b < q_number(0))) { crab::outs() << "FAIL: \"7/-2\" < 0 is false\n"; bad++; }
  if (b.round_to_lower() != z_number(-4)) { crab::outs() << "FAIL: floor(\"7/-2\") = " << b.round_to_lower() << " (expected -4)\n"; bad++; }
  q_number c("6/4", 10);
  if (c.denominator() != z_number(2)) { crab::outs() << "NOTE: \"6/4\" kept unreduced, denominator " << c.denominator() << "\n"; }
  crab::outs() << (bad ? "FAILED\n" : "PASS\n");
  return bad ? 1 : 0;
}
