// F6: the assertion crawler has no visit() for array / int<->ref statements
// (C18): `x := a[i]; assert(x >= 0)` reports that the assertion depends on {x}
// at the block entry instead of {a, i}.
#include "lang.hpp"
#include <crab/analysis/dataflow/assertion_crawler.hpp>
#include <sstream>
using namespace crab;
using namespace crab::cfg_impl;
int main() {
  variable_factory_t vfac;
  z_var a(vfac["a"], crab::ARR_INT_TYPE), i(vfac["i"], crab::INT_TYPE, 32), x(vfac["x"], crab::INT_TYPE, 32);
  z_cfg_t cfg("entry", "exit");
  z_basic_block_t &entry = cfg.insert("entry");
  z_basic_block_t &exit = cfg.insert("exit");
  entry >> exit;
  entry.array_load(x, a, i, 4);
  exit.assertion(x >= 0);
  typedef crab::analyzer::assertion_crawler<z_cfg_ref_t> crawler_t;
  crawler_t::assert_map_t assert_map;
  crawler_t::summary_map_t summaries;
  z_cfg_ref_t ref(cfg);
  crawler_t crawler(ref, assert_map, summaries);
  crawler.exec();
  auto r = crawler.get_results("entry");
  crab::crab_string_os os;
  os << r;
  std::string s = os.str();
  crab::outs() << "dependences at the entry of `entry`: " << s << "\n";
  std::string deps = s.substr(s.rfind("-> {") + 3);
  bool has_a = deps.find("a") != std::string::npos, has_i = deps.find("i") != std::string::npos;
  if (!has_a || !has_i) { crab::outs() << "the dependence of the assertion on a and i was dropped\n"; return 1; }
  return 0;
}
