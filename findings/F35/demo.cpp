// NOT part of the seeded change. These are behaviours of the UNCHANGED
// library (pinned commit) that already violate property C14. They do not
// involve the join of offset maps, so the seeded patch does not affect them.
//
// Build (from the worktree root):
//   g++ -std=c++11 -O1 -w -Iinclude -I_build/include -Itests \
//       _seed/preexisting_findings.cpp _build/lib/libCrab.a -lgmp -o /tmp/pre && /tmp/pre
//
// Observed output on the unchanged tree:
//   P1 x=B[8]  (concrete: unknown, A[8] never written): [3, 3]
//   P2 x=A[0]  (concrete: 5 or 7): [5, 5]
//   P3 x=A[60] (concrete: 7): [3, 3]
//   P4 x=A[4]  (concrete: 2 or 3): [9, 9]

#include "crab_lang.hpp"
#include <crab/domains/abstract_domain_params.hpp>
#include <crab/domains/array_adaptive.hpp>
#include <crab/domains/intervals.hpp>

using namespace crab;
using namespace crab::cfg_impl;
using namespace crab::domains;
using namespace ikos;
using z_interval_domain_t = interval_domain<z_number, varname_t>;
using aa_int_t = array_adaptive_domain<z_interval_domain_t>;

static int bad = 0;
static void need(bool ok, const char *what) { if (!ok) { crab::outs() << "   UNSOUND: " << what << "\n"; bad++; } }
int main() {
  { // P1: array_assign onto an lhs that already has cells keeps the old
    //     ghost variables of lhs alive (neither forgotten nor overwritten).
    array_adaptive_domain_params p(true, true, 64, 64);
    crab_domain_params_man::get().update_params(p);
    variable_factory_t vfac;
    z_var a(vfac["A"], crab::ARR_INT_TYPE), b(vfac["B"], crab::ARR_INT_TYPE);
    z_var x(vfac["x"], crab::INT_TYPE, 32);
    aa_int_t inv;
    inv.array_store(b, 4, 8, 3, false); // B[8] = 3
    inv.array_store(a, 4, 0, 1, false); // A[0] = 1 (A[8] unknown)
    inv.array_assign(b, a);             // B := A
    inv.array_load(x, b, 4, 8);
    crab::outs() << "P1 x=B[8]  (concrete: unknown, A[8] never written): "
                 << inv[x] << "\n";
    need(inv[x].is_top(), "B[8] = A[8] is unknown after B := A");
  }
  { // P2: array_store_range with a non-constant bound is ignored (only a
    //     warning), the cells in the range keep their old values.
    variable_factory_t vfac;
    z_var a(vfac["A"], crab::ARR_INT_TYPE);
    z_var n(vfac["n"], crab::INT_TYPE, 32), x(vfac["x"], crab::INT_TYPE, 32);
    aa_int_t inv;
    inv.array_store(a, 4, 0, 5, false);
    inv += (z_lin_exp_t(n) >= 0);
    inv += (z_lin_exp_t(n) <= 8);
    inv.array_store_range(a, 4, 0, n, 7);
    inv.array_load(x, a, 4, 0);
    crab::outs() << "P2 x=A[0]  (concrete: 5 or 7): " << inv[x] << "\n";
    need(ikos::interval<ikos::z_number>(ikos::z_number(7)) <= inv[x], "7 is a possible value of A[0]");
  }
  { // P3: array_store_range longer than max_array_size silently drops the
    //     tail of the range; with a non-smashable configuration an old cell
    //     in the tail keeps its stale value.
    array_adaptive_domain_params p(false, false, 8, 8);
    crab_domain_params_man::get().update_params(p);
    variable_factory_t vfac;
    z_var a(vfac["A"], crab::ARR_INT_TYPE);
    z_var x(vfac["x"], crab::INT_TYPE, 32);
    aa_int_t inv;
    inv.array_store(a, 4, 60, 3, false);   // A[60] = 3
    inv.array_store_range(a, 4, 0, 76, 7); // A[0],A[4],...,A[76] = 7
    inv.array_load(x, a, 4, 60);
    crab::outs() << "P3 x=A[60] (concrete: 7): " << inv[x] << "\n";
    need(ikos::interval<ikos::z_number>(ikos::z_number(7)) <= inv[x], "A[60] = 7");
  }
  { // P4: is_strong_update=true on an already smashed array overwrites the
    //     summary (arguably a client-contract question: "strong" is taken
    //     to mean "the array has a single element").
    array_adaptive_domain_params p(true, true, 64, 64);
    crab_domain_params_man::get().update_params(p);
    variable_factory_t vfac;
    z_var a(vfac["A"], crab::ARR_INT_TYPE);
    z_var i(vfac["i"], crab::INT_TYPE, 32), x(vfac["x"], crab::INT_TYPE, 32);
    aa_int_t inv;
    inv.array_store(a, 4, 0, 1, true);
    inv.array_store(a, 4, 4, 2, true);
    inv += (z_lin_exp_t(i) >= 0);
    inv += (z_lin_exp_t(i) <= 4);
    inv.array_store(a, 4, i, 3, false); // smashed: {1,2,3}
    inv.array_store(a, 4, 0, 9, true);  // strong update at constant index 0
    inv.array_load(x, a, 4, 4);
    crab::outs() << "P4 x=A[4]  (concrete: 2 or 3): " << inv[x] << "\n";
  }
  return bad ? 1 : 0;
}
