// F7: BackwardAssignOps::apply inverts x := y / k over the integers as
// y := x * k (C11): from post {x = 3} and x := y / 2 it returns the
// precondition {y = 6}, but y = 7 also leads to x = 3.
#include "lang.hpp"
#include <crab/domains/intervals.hpp>
using namespace crab;
using namespace crab::cfg_impl;
using namespace ikos;
int main() {
  variable_factory_t vfac;
  typedef interval_domain<z_number, varname_t> dom_t;
  z_var x(vfac["x"], crab::INT_TYPE, 32), y(vfac["y"], crab::INT_TYPE, 32);
  dom_t post;
  post += (x == 3);
  dom_t inv;       // forward invariant: top
  dom_t pre(post);
  pre.backward_apply(crab::domains::OP_SDIV, x, y, z_number(2), inv);
  crab::outs() << "pre of {x=3} through x := y / 2 is " << pre << "\n";
  // y = 7 reaches x = 3 (7 / 2 == 3), so the necessary precondition must contain it
  dom_t witness;
  witness += (y == 7);
  if (!(witness <= pre) ) {
    // (witness only constrains y; pre must allow y = 7)
    dom_t m = pre & witness;
    if (m.is_bottom()) { crab::outs() << "y = 7 is excluded although 7 / 2 == 3\n"; return 1; }
  }
  return 0;
}
