// F8: flat_boolean_numerical_domain keeps the constraints cached for the
// PREVIOUS definition of a Boolean when the Boolean is redefined (C03):
//   b := (x >= 5); b := <something else>; assume(b)   wrongly yields x >= 5.
#include "lang.hpp"
#include <crab/domains/flat_boolean_domain.hpp>
#include <crab/domains/intervals.hpp>
using namespace crab;
using namespace crab::cfg_impl;
using namespace crab::domains;
using namespace ikos;
typedef flat_boolean_numerical_domain<interval_domain<z_number, varname_t>> dom_t;
typedef interval<z_number> itv_t;

static int check(const char *what, dom_t d, z_var x) {
  itv_t i = d[x];
  crab::outs() << what << ": x in " << i << "\n";
  if (!i.is_top()) { crab::outs() << "  UNSOUND: nothing constrains x, yet the domain reports " << i << "\n"; return 1; }
  return 0;
}

int main() {
  variable_factory_t vfac;
  z_var x(vfac["x"], crab::INT_TYPE, 32), i(vfac["i"], crab::INT_TYPE, 32), p(vfac["p"], crab::REF_TYPE);
  z_var b(vfac["b"], crab::BOOL_TYPE, 1);
  int bad = 0;
  { // (1) redefinition by a truncation int -> bool
    dom_t d;
    d.assign_bool_cst(b, x >= 5);
    d.apply(OP_TRUNC, b, i);
    d.assume_bool(b, false);
    bad |= check("b:=(x>=5); b:=trunc(i); assume(b)", d, x);
  }
  { // (2) redefinition by a reference constraint
    dom_t d;
    d.assign_bool_cst(b, x >= 5);
    d.assign_bool_ref_cst(b, reference_constraint<z_number, varname_t>::mk_null(p));
    d.assume_bool(b, false);
    bad |= check("b:=(x>=5); b:=(p==null); assume(b)", d, x);
  }
  { // (3) redefinition by a constant-true constraint
    dom_t d;
    d.assign_bool_cst(b, x >= 5);
    d.assign_bool_cst(b, ikos::linear_constraint<z_number, varname_t>::get_true());
    d.assume_bool(b, false);
    bad |= check("b:=(x>=5); b:=true; assume(b)", d, x);
  }
  return bad;
}
