// flat_boolean_numerical_domain: m_bool_to_lincsts[b] = {c} only records "b => c".
// select_bool(lhs, cond, b1, b2) with b2 == false stores for lhs (= cond && b1) the
// constraints of cond, i.e. "lhs => c".  assign_bool_var(z, lhs, /*negate*/true) then
// negates that single constraint and records "z => not c", as if lhs <=> c.
#include "crab_dom.hpp"
using namespace crab::cfg_impl;
using namespace crab::domain_impl;
using namespace crab::domains;
using ikos::z_number;
typedef z_bool_interval_domain_t dom_t;   // flat_boolean_numerical_domain<interval_domain>

int main() {
  variable_factory_t vfac;
  z_var v(vfac["v"], crab::INT_TYPE, 32);
  z_var cond(vfac["cond"], crab::BOOL_TYPE, 1);
  z_var b1(vfac["b1"], crab::BOOL_TYPE, 1);
  z_var b2(vfac["b2"], crab::BOOL_TYPE, 1);
  z_var lhs(vfac["lhs"], crab::BOOL_TYPE, 1);
  z_var z(vfac["z"], crab::BOOL_TYPE, 1);
  // concrete run: v=-5, b1=false:
  //   cond := (v <= 0)            -> true
  //   b2 := false
  //   lhs := cond ? b1 : b2       -> false
  //   z := not(lhs)               -> true
  //   assume(z)                   -> passes, v is still -5
  dom_t d;
  d.assign_bool_cst(cond, z_lin_cst_t(z_lin_exp_t(v) <= z_number(0)));
  d.assign_bool_cst(b2, z_lin_cst_t::get_false());
  d.select_bool(lhs, cond, b1, b2);
  d.assign_bool_var(z, lhs, true /*negated*/);
  d.assume_bool(z, false);
  auto i = d.at(v);
  crab::outs() << "after assume(z): " << d << "   v in " << i << "\n";
  if (!i[z_number(-5)]) {
    crab::outs() << "VIOLATION: state v=-5,cond=true,b1=false,b2=false,lhs=false,z=true is lost\n";
    return 1;
  }
  return 0;
}
