// DISCOVERY AID - NOT A REGISTERED CHECK.  Exactness of intervals / zones / octagons on their own constraint language
// (property C12): a random conjunction of in-language constraints over three variables, all within the box [-6,6]^3, is
// assumed in random order (optionally split over two values that are then met); the result must be bottom exactly when no
// integer point of the box satisfies the conjunction, the bounds of every variable must be the exact minimum / maximum,
// and entails(c) must hold exactly for the in-language constraints c that every model satisfies.
// build: g++ -w -std=c++11 -O1 -DNDEBUG -I/repo/include -I/repo/_build/include -I/repo/tests exactfuzz.cpp <libCrab.a> -lgmp -o exactfuzz
#include "crab_lang.hpp"
#include "crab_dom.hpp"
#include <cstdlib>
#include <array>
using namespace crab::cfg_impl; using namespace crab::domain_impl; using namespace ikos;
struct rng { unsigned long long s; rng(unsigned long long x) : s(x * 2862933555777941757ULL + 3037000493ULL) {}
  unsigned next() { s ^= s << 13; s ^= s >> 7; s ^= s << 17; return (unsigned)(s >> 11); } int in(int lo, int hi) { return lo + (int)(next() % (unsigned)(hi - lo + 1)); } };
static const int NV = 3, B = 6;
struct cst { int a[NV]; int k; };   // a.x <= k with a in {-1,0,1}
static bool sat(const cst &c, const int *p) { int v = 0; for (int i = 0; i < NV; i++) v += c.a[i] * p[i]; return v <= c.k; }
template <class Dom> int drive(const char *name, int lang, unsigned long long first, int count) {   // lang: 0 intervals, 1 zones, 2 octagons
  int bad = 0; variable_factory_t vfac; std::vector<z_var> v; const char *n[NV] = {"x", "y", "z"}; for (int i = 0; i < NV; i++) v.push_back(z_var(vfac[n[i]], crab::INT_TYPE, 32));
  for (int sd = 0; sd < count && bad < 3; sd++) {
    rng r(first + sd); std::vector<cst> cs;
    for (int i = 0; i < NV; i++) { cst c; for (int j = 0; j < NV; j++) c.a[j] = 0; c.a[i] = 1; c.k = B; cs.push_back(c); c.a[i] = -1; cs.push_back(c); }   // the box
    int nc = r.in(1, 5);
    for (int t = 0; t < nc; t++) { cst c; for (int j = 0; j < NV; j++) c.a[j] = 0; int i = r.in(0, NV - 1), j = r.in(0, NV - 1); c.k = r.in(-5, 5);
      if (lang == 0 || i == j) c.a[i] = r.in(0, 1) ? 1 : -1; else if (lang == 1) { c.a[i] = 1; c.a[j] = -1; } else { c.a[i] = r.in(0, 1) ? 1 : -1; c.a[j] = r.in(0, 1) ? 1 : -1; }
      cs.push_back(c); }
    for (size_t i = cs.size(); i > 1; i--) std::swap(cs[i - 1], cs[r.in(0, (int)i - 1)]);
    auto tolin = [&](const cst &c) { z_lin_exp_t e(z_number((long)-c.k)); for (int j = 0; j < NV; j++) if (c.a[j]) e = e + z_number((long)c.a[j]) * v[j]; return z_lin_cst_t(e <= z_number(0)); };
    bool use_meet = r.in(0, 2) == 0; Dom d, d2; size_t half = cs.size() / 2;
    for (size_t i = 0; i < cs.size(); i++) { if (use_meet && i >= half) d2 += tolin(cs[i]); else d += tolin(cs[i]); }
    if (use_meet) d = d & d2;
    // brute force
    int mn[NV], mx[NV]; bool any = false; std::vector<std::array<int, NV>> models;
    for (int x = -B; x <= B; x++) for (int y = -B; y <= B; y++) for (int z = -B; z <= B; z++) { int p[NV] = {x, y, z}; bool ok = true; for (auto &c : cs) if (!sat(c, p)) { ok = false; break; }
      if (ok) { if (!any) { for (int i = 0; i < NV; i++) mn[i] = mx[i] = p[i]; any = true; } for (int i = 0; i < NV; i++) { mn[i] = std::min(mn[i], p[i]); mx[i] = std::max(mx[i], p[i]); } { std::array<int, NV> mm = {{x, y, z}}; models.push_back(mm); } } }
    std::string err; crab::crab_string_os os;
    if (d.is_bottom() != !any) { os << "is_bottom = " << d.is_bottom() << " but the conjunction is " << (any ? "satisfiable" : "unsatisfiable"); err = os.str(); }
    if (err.empty() && any) {
      // (the bounds reported by operator[] are compared only with BOUNDS=1: the property speaks of bottom and entailment)
      for (int i = 0; i < NV && err.empty() && getenv("BOUNDS"); i++) { interval<z_number> got = d[v[i]]; interval<z_number> want(z_number((long)mn[i]), z_number((long)mx[i])); if (!(got == want)) { os << "bounds of " << n[i] << " are " << got << ", exact " << want; err = os.str(); } }
      // entailment of every in-language constraint with a constant in [-8,8]
      for (int i = 0; i < NV && err.empty(); i++) for (int j = i; j < NV && err.empty(); j++) for (int si = -1; si <= 1 && err.empty(); si += 2) for (int sj = -1; sj <= 1 && err.empty(); sj += 2) {
        if (i == j && sj != si) continue; if (lang == 0 && i != j) continue; if (lang == 1 && i != j && si == sj) continue;
        for (int k = -8; k <= 8 && err.empty(); k++) { cst c; for (int q = 0; q < NV; q++) c.a[q] = 0; if (i == j) c.a[i] = si; else { c.a[i] = si; c.a[j] = sj; } c.k = k;
          bool implied = true; for (auto &m : models) { int p[NV] = {m[0], m[1], m[2]}; if (!sat(c, p)) { implied = false; break; } }
          bool got = d.entails(tolin(c));
          if (got != implied) { os << "entails(" << tolin(c) << ") = " << got << " but the conjunction " << (implied ? "implies" : "does not imply") << " it"; err = os.str(); } } }
    }
    if (!err.empty()) { bad++; crab::outs() << "INEXACT [" << name << " seed " << (first + sd) << (use_meet ? ", split over a meet" : "") << "] " << err << "\n   value: " << d << "\n   constraints:"; for (auto &c : cs) crab::outs() << " " << tolin(c) << ";"; crab::outs() << "\n"; }
  }
  crab::outs() << name << ": " << count << " seeds, " << bad << " inexact\n"; return bad;
}
int main(int argc, char **argv) {
  crab::CrabEnableWarningMsg(false);
  std::string dn = argc > 1 ? argv[1] : "interval"; unsigned long long first = argc > 2 ? strtoull(argv[2], 0, 10) : 1; int count = argc > 3 ? atoi(argv[3]) : 300;
  if (const char *ps = getenv("PARAMS")) { std::string p(ps); size_t i = 0; while (i < p.size()) { size_t j = p.find(',', i); if (j == std::string::npos) j = p.size(); std::string kv = p.substr(i, j - i); size_t e = kv.find('='); if (e != std::string::npos) crab::domains::crab_domain_params_man::get().set_param(kv.substr(0, e), kv.substr(e + 1)); i = j + 1; } }
  if (dn == "interval") return drive<z_interval_domain_t>("interval", 0, first, count) ? 1 : 0;
  if (dn == "sdbm") return drive<z_sdbm_domain_t>("sdbm", 1, first, count) ? 1 : 0;
  if (dn == "dbm") return drive<z_dbm_domain_t>("dbm", 1, first, count) ? 1 : 0;
  if (dn == "soct") return drive<z_soct_domain_t>("soct", 2, first, count) ? 1 : 0;
  return 2;
}
