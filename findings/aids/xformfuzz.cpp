// DISCOVERY AID - NOT A REGISTERED CHECK (see domfuzz.cpp).  Random ACYCLIC CFGs of a function with one output are
// interpreted concretely (every branch, every havoc value in {-1,0,1}) before and after cfg.simplify() and after dead code
// elimination; the sets of observable outcomes (value of the output at the exit block, violated assertions by text) must agree.
// build: g++ -w -std=c++11 -O1 -DNDEBUG -I/repo/include -I/repo/_build/include -I/repo/tests xformfuzz.cpp <libCrab.a> -lgmp -o xformfuzz
#include "crab_lang.hpp"
#include "crab_dom.hpp"
#include <crab/transforms/dce.hpp>
#include <array>
#include <set>
#include <map>
#include <sstream>
#include <cstdlib>
using namespace crab::cfg_impl;
using namespace crab::domain_impl;
using namespace crab::cfg;
using namespace ikos;
typedef std::map<std::string, long> env_t;
struct rng { unsigned long long s; rng(unsigned long long x) : s(x * 2862933555777941757ULL + 3037000493ULL) {}
  unsigned next() { s ^= s << 13; s ^= s >> 7; s ^= s << 17; return (unsigned)(s >> 11); }
  int in(int lo, int hi) { return lo + (int)(next() % (unsigned)(hi - lo + 1)); } };

static long eval(const z_lin_exp_t &e, const env_t &env) {
  long v = (long)(int64_t)e.constant();
  for (auto kv : e) { auto it = env.find(kv.second.name().str()); long x = it == env.end() ? 0 : it->second; v += (long)(int64_t)kv.first * x; }
  return v;
}
static bool holds(const z_lin_cst_t &c, const env_t &env) {
  long v = eval(c.expression(), env);
  if (c.is_equality()) return v == 0; if (c.is_disequation()) return v != 0; if (c.is_strict_inequality()) return v < 0; return v <= 0;
}
typedef std::set<std::string> outcomes_t;
// explore every execution from block `lab` with environment env
static std::set<std::string> g_reach_exit;
static void explore(z_cfg_t &cfg, const std::string &lab, env_t env, const std::string &out, outcomes_t &res, int depth) {
  if (depth > 40) { res.insert("DEPTH"); return; }
  auto &bb = cfg.get_node(lab);
  std::vector<env_t> cur(1, env);
  for (auto &s : bb) {
    std::vector<env_t> nxt;
    for (auto &e : cur) {
      int code = s.is_assign() ? 1 : s.is_bin_op() ? 2 : s.is_assume() ? 3 : s.is_assert() ? 4 : s.is_havoc() ? 5 : 0;
      switch (code) {
      case 1: { auto &st = static_cast<const z_basic_block_t::assign_t &>(s); env_t n(e); n[st.lhs().name().str()] = eval(st.rhs(), e); nxt.push_back(n); break; }
      case 2: { auto &st = static_cast<const z_basic_block_t::bin_op_t &>(s); long a = eval(st.left(), e), b = eval(st.right(), e); long r;
        switch (st.op()) { case BINOP_ADD: r = a + b; break; case BINOP_SUB: r = a - b; break; case BINOP_MUL: r = a * b; break; default: r = 0; res.insert("UNSUPPORTED-OP"); }
        env_t n(e); n[st.lhs().name().str()] = r; nxt.push_back(n); break; }
      case 3: { auto &st = static_cast<const z_basic_block_t::assume_t &>(s); if (holds(st.constraint(), e)) nxt.push_back(e); break; }
      case 4: { auto &st = static_cast<const z_basic_block_t::assert_t &>(s); if (holds(st.constraint(), e)) nxt.push_back(e); else { std::ostringstream os; crab::crab_string_os cs; cs << st.constraint(); res.insert((g_reach_exit.count(lab) ? "VIOLATED " : "VIOLATED-IN-DEAD-END ") + cs.str()); } break; }
      case 5: { auto &st = static_cast<const z_basic_block_t::havoc_t &>(s); for (long v = -1; v <= 1; v++) { env_t n(e); n[st.get_variable().name().str()] = v; nxt.push_back(n); } break; }
      default: res.insert("UNSUPPORTED-STMT"); nxt.push_back(e);
      }
    }
    // deduplicate
    std::set<env_t> uniq(nxt.begin(), nxt.end()); cur.assign(uniq.begin(), uniq.end());
    if (cur.size() > 300) cur.resize(300);
    if (cur.empty()) return;
  }
  auto succs = cfg.next_nodes(lab);
  // an execution that reaches the end of the exit block ends there, whether or not the exit block has successors
  if (cfg.has_exit() && lab == cfg.exit()) { for (auto &e : cur) { auto it = e.find(out); res.insert("EXIT " + out + "=" + std::to_string(it == e.end() ? 0 : it->second)); } return; }
  if (succs.begin() == succs.end()) return;
  for (auto const &t : boost::make_iterator_range(succs.begin(), succs.end())) for (auto &e : cur) explore(cfg, t, e, out, res, depth + 1);
}
static outcomes_t run_all(z_cfg_t &cfg, const std::vector<std::string> &vars, const std::string &out) {
  outcomes_t res;
  // blocks from which the exit block can be reached
  g_reach_exit.clear();
  if (cfg.has_exit()) { std::vector<std::string> wl(1, cfg.exit()); while (!wl.empty()) { std::string n = wl.back(); wl.pop_back(); if (!g_reach_exit.insert(n).second) continue;
      auto ps = cfg.prev_nodes(n); for (auto const &p : boost::make_iterator_range(ps.begin(), ps.end())) wl.push_back(p); } }
  for (long a = -1; a <= 1; a++) for (long b = -1; b <= 1; b++) for (long c = -1; c <= 1; c++) {
    env_t env; env[vars[0]] = a; env[vars[1]] = b; env[vars[2]] = c; env[vars[3]] = 0;
    explore(cfg, cfg.entry(), env, out, res, 0);
  }
  return res;
}

static z_cfg_t *build(unsigned long long seed, variable_factory_t &vfac, std::vector<z_var> &v, std::string &desc_out) {
  rng r(seed);
  const char *names[4] = {"a", "b", "c", "d"};
  for (int i = 0; i < 4; i++) v.push_back(z_var(vfac[names[i]], crab::INT_TYPE, 32));
  int nb = r.in(2, 7);
  std::vector<std::string> bn; for (int i = 0; i < nb; i++) bn.push_back("b" + std::to_string(i));
  // function with inputs a, b, c and output d
  function_decl<z_number, varname_t> decl("f", {v[0], v[1], v[2]}, {v[3]});
  // EXITANY=1: the exit block is any block but the first, so that it may have successors
  int exit_idx = getenv("EXITANY") ? r.in(1, nb - 1) : nb - 1;
  z_cfg_t *cfg = new z_cfg_t(bn[0], bn[exit_idx], decl);
  std::vector<z_basic_block_t *> bb; for (int i = 0; i < nb; i++) bb.push_back(&cfg->insert(bn[i]));
  std::ostringstream desc;
  std::vector<std::set<int>> succ(nb);
  for (int i = 0; i + 1 < nb; i++) { if (r.in(0, 4) != 0 || i == 0) { *bb[i] >> *bb[i + 1]; succ[i].insert(i + 1); } }
  int extra = r.in(0, nb);
  for (int e = 0; e < extra; e++) { int s = r.in(0, nb - 2), t = r.in(s + 1, nb - 1); if (succ[s].count(t)) continue; *bb[s] >> *bb[t]; succ[s].insert(t); }   // forward edges only: acyclic
  for (int i = 0; i < nb; i++) {
    desc << bn[i] << ":";
    int ns = r.in(0, 3);
    for (int k = 0; k < ns; k++) {
      int kind = r.in(0, 9), x = r.in(0, 3), y = r.in(0, 3), z = r.in(0, 3), c0 = r.in(-2, 2), op = r.in(0, 3);
      if (kind <= 2) { z_lin_exp_t e(z_number((long)c0)); int c1 = r.in(-2, 2); if (c1) e = e + z_number((long)c1) * v[y]; bb[i]->assign(v[x], e); desc << " " << names[x] << ":=" << c0 << "+" << c1 << names[y] << ";"; }
      else if (kind <= 4) { if (op == 0) bb[i]->add(v[x], v[y], v[z]); else if (op == 1) bb[i]->sub(v[x], v[y], v[z]); else if (op == 2) bb[i]->mul(v[x], v[y], z_number((long)c0)); else bb[i]->add(v[x], v[y], z_number((long)c0));
        desc << " " << names[x] << ":=" << names[y] << " op" << op << " " << (op < 2 ? names[z] : std::to_string(c0).c_str()) << ";"; }
      else if (kind <= 6) { z_lin_exp_t e(z_number((long)c0)); e = e + z_number((long)r.in(-1, 1)) * v[y] + z_number((long)r.in(-1, 1)) * v[z]; z_lin_cst_t cst = op == 0 ? z_lin_cst_t(e <= z_number(0)) : op == 1 ? z_lin_cst_t(e < z_number(0)) : op == 2 ? z_lin_cst_t(e == z_number(0)) : z_lin_cst_t(e != z_number(0)); bb[i]->assume(cst); crab::crab_string_os cs; cs << cst; desc << " assume(" << cs.str() << ");"; }
      else if (kind == 7) { z_lin_exp_t e(z_number((long)c0)); e = e + z_number((long)r.in(-1, 1)) * v[y]; z_lin_cst_t cst = z_lin_cst_t(e <= z_number(0)); bb[i]->assertion(cst); crab::crab_string_os cs; cs << cst; desc << " assert(" << cs.str() << ");"; }
      else { bb[i]->havoc(v[x]); desc << " havoc " << names[x] << ";"; }
    }
    desc << " ->"; for (int t : succ[i]) desc << " " << bn[t]; if (i == exit_idx) desc << "   [exit]"; desc << "\n";
  }
  desc_out = desc.str();
  return cfg;
}

int main(int argc, char **argv) {
  crab::CrabEnableWarningMsg(false);
  unsigned long long first = argc > 1 ? strtoull(argv[1], 0, 10) : 1; int count = argc > 2 ? atoi(argv[2]) : 200; int bad = 0;
  std::vector<std::string> names = {"a", "b", "c", "d"};
  for (int i = 0; i < count && bad < 3; i++) {
    unsigned long long seed = first + i;
    std::string desc;
    variable_factory_t vf0; std::vector<z_var> v0; z_cfg_t *c0 = build(seed, vf0, v0, desc);
    outcomes_t ref = run_all(*c0, names, "d");
    if (ref.count("DEPTH") || ref.count("UNSUPPORTED-STMT") || ref.count("UNSUPPORTED-OP")) { delete c0; continue; }
    for (int which = 0; which < 2; which++) {
      variable_factory_t vf; std::vector<z_var> v; std::string d2; z_cfg_t *c = build(seed, vf, v, d2);
      if (which == 0) c->simplify(); else { z_cfg_ref_t cref(*c); crab::transforms::dead_code_elimination<z_cfg_ref_t> dce; dce.run(cref); }
      outcomes_t got = run_all(*c, names, "d");
      // executions that cannot end at the exit block are outside the property: their failures may disappear
      outcomes_t ref_cmp, got_cmp; for (auto &o : ref) if (o.find("DEAD-END") == std::string::npos) ref_cmp.insert(o); for (auto &o : got) if (o.find("DEAD-END") == std::string::npos) got_cmp.insert(o);
      if (got_cmp != ref_cmp) {
        bad++;
        crab::outs() << "MISMATCH seed " << seed << " after " << (which == 0 ? "simplify()" : "dead code elimination") << "\n" << desc << "  outcomes before:";
        for (auto &o : ref) crab::outs() << " [" << o << "]"; crab::outs() << "\n  outcomes after: "; for (auto &o : got) crab::outs() << " [" << o << "]";
        crab::outs() << "\n  transformed CFG:\n" << *c << "\n";
      }
      delete c;
    }
    delete c0;
  }
  crab::outs() << "xform: " << count << " seeds, " << bad << " mismatching\n";
  return bad ? 1 : 0;
}
