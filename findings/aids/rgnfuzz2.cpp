// DISCOVERY AID - NOT A REGISTERED CHECK (see domfuzz.cpp).  Written by the C15 defect-hunting sub-agent (it saw only the text
// of the property and a scratch worktree); kept as it was delivered except for the include path.  Random straight-line region
// programs with forks / joins / widenings / meets over typed and UNKNOWN regions, regions holding references, region_copy /
// region_cast, intrinsics and randomised region.* parameters, against a concrete interpreter; one child process per seed.
// build: g++ -w -std=c++11 -O1 -DNDEBUG -DSET1 -I/repo/include -I/repo/_build/include -I/repo/tests rgnfuzz2.cpp <libCrab.a> -lgmp -o rgnfuzz2
// run:   ./rgnfuzz2 <int|sdbm|boolint|const|...> <first seed> <last seed>     (clean on the repaired tree: 1500 seeds x 3 domains)
// Random differential tester for the region domain (domain level, straight-line
// programs with random forks/joins). Not a reproducer: a hunting aid.
#include "common.hpp"
#include <sys/wait.h>
#include <unistd.h>
#include <sstream>
#include <iostream>
#include <random>
using namespace crab::cfg;
using namespace crab::cfg_impl;
using namespace crab::domain_impl;
using namespace ikos;
using namespace crab::domains;

static std::mt19937 rng;
static std::ostringstream *g_trace = nullptr;
static void dump_trace_at_exit() { if (g_trace) { std::cout << "---- trace before crash:\n" << g_trace->str() << std::endl; } }
static int rnd(int n) { return (int)(rng() % (unsigned)n); }
static bool coin(int pct = 50) { return rnd(100) < pct; }

enum RK { K_INT = 1, K_BOOL = 2, K_REF = 3, K_UNK = 4 };

struct RefVal {
  bool null = true;
  long addr = 0;
  int obj = -1;
  int rgn = -1; // region the reference is associated with
};
struct Val {
  int kind = 0;
  long i = 0;
  RefVal r;
};
struct Obj {
  long base, size;
  long site;
  bool freed;
  std::set<int> rgns;
};
struct CState {
  std::vector<bool> idef, bdef, pdef;
  std::vector<long> ival;
  std::vector<bool> bval;
  std::vector<RefVal> pval;
  std::vector<std::map<long, Val>> cells;
  std::vector<Obj> objs;
  long next_base = 1000;
};

static const int NI = 3, NB = 2, NP = 6;
struct Env {
  variable_factory_t vfac;
  crab::tag_manager as_man;
  std::vector<z_var> iv, bv, pv, rg;
  std::vector<int> rk; // region static kinds
  std::vector<crab::allocation_site> sites;
  z_var xs, bs, ps;
  Env()
      : xs(vfac["xs"], crab::INT_TYPE, 32), bs(vfac["bs"], crab::BOOL_TYPE, 1),
        ps(vfac["ps"], crab::REF_TYPE, 32) {
    for (int i = 0; i < NI; i++)
      iv.push_back(z_var(vfac["x" + std::to_string(i)], crab::INT_TYPE, 32));
    for (int i = 0; i < NB; i++)
      bv.push_back(z_var(vfac["b" + std::to_string(i)], crab::BOOL_TYPE, 1));
    for (int i = 0; i < NP; i++)
      pv.push_back(z_var(vfac["p" + std::to_string(i)], crab::REF_TYPE, 32));
    auto addr = [&](const char *n, crab::variable_type_kind t, int bw, int k) {
      rg.push_back(z_var(vfac[n], t, bw));
      rk.push_back(k);
    };
    addr("RI0", crab::REG_INT_TYPE, 32, K_INT);
    addr("RI1", crab::REG_INT_TYPE, 32, K_INT);
    addr("RB0", crab::REG_BOOL_TYPE, 1, K_BOOL);
    addr("RR0", crab::REG_REF_TYPE, 32, K_REF);
    addr("RR1", crab::REG_REF_TYPE, 32, K_REF);
    addr("U0", crab::REG_UNKNOWN_TYPE, 32, K_UNK);
    addr("U1", crab::REG_UNKNOWN_TYPE, 32, K_UNK);
    addr("U2", crab::REG_UNKNOWN_TYPE, 32, K_UNK);
  }
};

static z_var_or_cst_t icst(long v) {
  return z_var_or_cst_t(z_number(v), crab::variable_type(crab::INT_TYPE, 32));
}
static z_var_or_cst_t bcst(bool v) {
  return z_var_or_cst_t(z_number(v ? 1 : 0),
                        crab::variable_type(crab::BOOL_TYPE, 1));
}

template <class Dom> struct Fuzz {
  Env &E;
  std::ostringstream trace;
  bool P_alloc, P_dealloc, P_tag, P_deref, P_skip;
  Fuzz(Env &e) : E(e) {}

  [[noreturn]] void fail(const std::string &msg, Dom &inv) {
    crab::outs() << "==== VIOLATION: " << msg << "\n";
    crab::outs() << "params alloc=" << P_alloc << " dealloc=" << P_dealloc
                 << " tag=" << P_tag << " deref=" << P_deref
                 << " skip_unknown=" << P_skip << "\n";
    crab::outs() << trace.str();
    crab::CrabEnableLog("region-print");
    crab::outs() << "state: " << inv << "\n";
    fflush(stdout); std::cout.flush();
    _exit(42);
  }

  bool ref_eqv(const RefVal &a, const RefVal &b) { return a.addr == b.addr; }

  void check_ref(Dom &inv, const z_var &p, const RefVal &v,
                 const CState &c, const std::string &ctx) {
    boolean_value nul = inv.is_null_ref(p);
    std::ostringstream os;
    if (nul.is_bottom())
      fail(ctx + ": is_null_ref bottom for " + p.name().str(), inv);
    if (nul.is_true() && !v.null) {
      fail(ctx + ": " + p.name().str() + " reported NULL but is not", inv);
    }
    if (nul.is_false() && v.null) {
      fail(ctx + ": " + p.name().str() + " reported non-NULL but is NULL", inv);
    }
    if (P_alloc && !v.null && v.obj >= 0) {
      std::vector<crab::allocation_site> sites;
      if (inv.get_allocation_sites(p, sites)) {
        bool found = false;
        for (auto &s : sites)
          if ((long)s.index() == c.objs[v.obj].site)
            found = true;
        if (!found)
          fail(ctx + ": allocation sites of " + p.name().str() +
                   " miss the actual site as_" +
                   std::to_string(c.objs[v.obj].site),
               inv);
      }
    }
  }

  void check_val(Dom &inv, const z_var &x, const Val &v, const CState &c,
                 const std::string &ctx) {
    if (v.kind == K_INT) {
      auto itv = inv[x];
      if (!(ikos::interval<z_number>(z_number(v.i)) <= itv)) {
        std::ostringstream os;
        crab::crab_string_os sos;
        sos << itv;
        fail(ctx + ": " + x.name().str() + " = " + std::to_string(v.i) +
                 " not in " + sos.str(),
             inv);
      }
    } else if (v.kind == K_BOOL) {
      Dom t(inv);
      t.assume_bool(x, v.i ? false : true);
      if (t.is_bottom())
        fail(ctx + ": bool " + x.name().str() + " = " + std::to_string(v.i) +
                 " excluded",
             inv);
    } else if (v.kind == K_REF) {
      check_ref(inv, x, v.r, c, ctx);
    }
  }

  void check(Dom &inv, const CState &c, const std::string &ctx) {
    if (inv.is_bottom())
      fail(ctx + ": abstract state is bottom", inv);
    for (int i = 0; i < NI; i++)
      if (c.idef[i]) {
        Val v; v.kind = K_INT; v.i = c.ival[i];
        check_val(inv, E.iv[i], v, c, ctx);
      }
    for (int i = 0; i < NB; i++)
      if (c.bdef[i]) {
        Val v; v.kind = K_BOOL; v.i = c.bval[i];
        check_val(inv, E.bv[i], v, c, ctx);
      }
    for (int i = 0; i < NP; i++)
      if (c.pdef[i]) {
        check_ref(inv, E.pv[i], c.pval[i], c, ctx);
      }
    // memory: load through every usable reference
    for (int i = 0; i < NP; i++) {
      if (!c.pdef[i]) continue;
      const RefVal &r = c.pval[i];
      if (r.null || r.rgn < 0 || r.obj < 0 || c.objs[r.obj].freed) continue;
      auto it = c.cells[r.rgn].find(r.addr);
      if (it == c.cells[r.rgn].end()) continue;
      const Val &v = it->second;
      if (E.rk[r.rgn] != K_UNK && E.rk[r.rgn] != v.kind) continue;
      Dom t(inv);
      const z_var &dst = (v.kind == K_INT ? E.xs : (v.kind == K_BOOL ? E.bs : E.ps));
      t.ref_load(E.pv[i], E.rg[r.rgn], dst);
      check_val(t, dst, v, c,
                ctx + ": [check] " + dst.name().str() + " := load(" +
                    E.pv[i].name().str() + "," + E.rg[r.rgn].name().str() + ")");
    }
  }

  void invalidate_region_refs(CState &c, int R) {
    for (auto &o : c.objs) o.rgns.erase(R);
    for (int i = 0; i < NP; i++)
      if (c.pdef[i] && c.pval[i].rgn == R) c.pval[i].rgn = -1;
    for (auto &m : c.cells)
      for (auto &kv : m)
        if (kv.second.kind == K_REF && kv.second.r.rgn == R)
          kv.second.r.rgn = -1;
  }

  int pick_defined_ref(const CState &c, bool nonnull, bool deref) {
    std::vector<int> cand;
    for (int i = 0; i < NP; i++) {
      if (!c.pdef[i]) continue;
      const RefVal &r = c.pval[i];
      if (nonnull && r.null) continue;
      if (deref && (r.null || r.rgn < 0 || r.obj < 0 || c.objs[r.obj].freed))
        continue;
      cand.push_back(i);
    }
    if (cand.empty()) return -1;
    return cand[rnd(cand.size())];
  }
  int pick_defined_int(const CState &c) {
    std::vector<int> cand;
    for (int i = 0; i < NI; i++) if (c.idef[i]) cand.push_back(i);
    if (cand.empty()) return -1;
    return cand[rnd(cand.size())];
  }
  int pick_defined_bool(const CState &c) {
    std::vector<int> cand;
    for (int i = 0; i < NB; i++) if (c.bdef[i]) cand.push_back(i);
    if (cand.empty()) return -1;
    return cand[rnd(cand.size())];
  }

  std::string rn(int R) { return E.rg[R].name().str(); }
  std::string pn(int p) { return E.pv[p].name().str(); }
  std::string xn(int x) { return E.iv[x].name().str(); }
  std::string bn(int b) { return E.bv[b].name().str(); }

  // one random statement; returns false if nothing was executed
  bool step(Dom &inv, CState &c, const std::string &ind) {
    int k = rnd(100);
    if (k < 10) { // make_ref
      int p = rnd(NP), R = rnd(E.rg.size());
      long sz = 4 * (1 + rnd(4));
      crab::allocation_site s = E.as_man.mk_tag();
      trace << ind << pn(p) << " := make_ref(" << rn(R) << "," << sz << ") site as_"
            << s.index() << "\n";
      { int xi = coin(30) ? pick_defined_int(c) : -1;
        if (xi >= 0 && c.ival[xi] >= 4 && c.ival[xi] <= 64) { sz = c.ival[xi]; trace << ind << "   (size is " << xn(xi) << ")\n"; inv.ref_make(E.pv[p], E.rg[R], z_var_or_cst_t(E.iv[xi]), s); }
        else inv.ref_make(E.pv[p], E.rg[R], icst(sz), s); }
      Obj o; o.base = c.next_base; c.next_base += 1000; o.size = sz;
      o.site = s.index(); o.freed = false;
      o.rgns.insert(R);
      c.objs.push_back(o);
      RefVal r; r.null = false; r.addr = o.base; r.obj = c.objs.size() - 1; r.rgn = R;
      c.pdef[p] = true; c.pval[p] = r;
      return true;
    } else if (k < 20) { // gep
      int p1 = pick_defined_ref(c, true, false);
      if (p1 < 0) return false;
      RefVal r1 = c.pval[p1];
      if (r1.rgn < 0 || r1.obj < 0) return false;
      int p2 = rnd(NP);
      int R2 = coin(70) ? r1.rgn : rnd(E.rg.size());
      const Obj &o = c.objs[r1.obj];
      long cur = r1.addr - o.base;
      long off;
      int xi = -1;
      if (coin(25) && (xi = pick_defined_int(c)) >= 0 && c.ival[xi] >= -cur &&
          c.ival[xi] + cur <= o.size) {
        off = c.ival[xi];
        trace << ind << pn(p2) << "," << rn(R2) << " := gep(" << pn(p1) << ","
              << rn(r1.rgn) << "," << xn(xi) << ")\n";
        inv.ref_gep(E.pv[p1], E.rg[r1.rgn], E.pv[p2], E.rg[R2],
                    z_lin_exp_t(E.iv[xi]));
      } else {
        off = 4 * rnd(3);
        if (cur + off > o.size) off = 0;
        trace << ind << pn(p2) << "," << rn(R2) << " := gep(" << pn(p1) << ","
              << rn(r1.rgn) << "," << off << ")\n";
        inv.ref_gep(E.pv[p1], E.rg[r1.rgn], E.pv[p2], E.rg[R2],
                    z_lin_exp_t(z_number(off)));
      }
      RefVal r2 = r1; r2.addr += off; r2.rgn = R2; c.objs[r1.obj].rgns.insert(R2);
      c.pdef[p2] = true; c.pval[p2] = r2;
      return true;
    } else if (k < 40) { // store
      int p = pick_defined_ref(c, true, true);
      if (p < 0) return false;
      RefVal r = c.pval[p];
      int R = r.rgn;
      int kind = E.rk[R];
      if (kind == K_UNK) kind = 1 + rnd(3);
      Val v; v.kind = kind;
      if (kind == K_INT) {
        int xi = coin() ? pick_defined_int(c) : -1;
        if (xi >= 0) {
          v.i = c.ival[xi];
          trace << ind << "store(" << pn(p) << "," << rn(R) << "," << xn(xi) << ")\n";
          inv.ref_store(E.pv[p], E.rg[R], z_var_or_cst_t(E.iv[xi]));
        } else {
          v.i = rnd(20) - 5;
          trace << ind << "store(" << pn(p) << "," << rn(R) << "," << v.i << ")\n";
          inv.ref_store(E.pv[p], E.rg[R], icst(v.i));
        }
      } else if (kind == K_BOOL) {
        int bi = coin() ? pick_defined_bool(c) : -1;
        if (bi >= 0) {
          v.i = c.bval[bi];
          trace << ind << "store(" << pn(p) << "," << rn(R) << "," << bn(bi) << ")\n";
          inv.ref_store(E.pv[p], E.rg[R], z_var_or_cst_t(E.bv[bi]));
        } else {
          v.i = rnd(2);
          trace << ind << "store(" << pn(p) << "," << rn(R) << ","
                << (v.i ? "true" : "false") << ")\n";
          inv.ref_store(E.pv[p], E.rg[R], bcst(v.i));
        }
      } else {
        int q = coin(75) ? pick_defined_ref(c, false, false) : -1;
        if (q >= 0) {
          v.r = c.pval[q];
          trace << ind << "store(" << pn(p) << "," << rn(R) << "," << pn(q) << ")\n";
          inv.ref_store(E.pv[p], E.rg[R], z_var_or_cst_t(E.pv[q]));
        } else {
          v.r = RefVal();
          trace << ind << "store(" << pn(p) << "," << rn(R) << ",NULL)\n";
          inv.ref_store(E.pv[p], E.rg[R], z_var_or_cst_t::make_reference_null());
        }
      }
      c.cells[R][r.addr] = v;
      return true;
    } else if (k < 52) { // load
      int p = pick_defined_ref(c, true, true);
      if (p < 0) return false;
      RefVal r = c.pval[p];
      int R = r.rgn;
      auto it = c.cells[R].find(r.addr);
      if (it == c.cells[R].end()) return false;
      Val v = it->second;
      if (E.rk[R] != K_UNK && E.rk[R] != v.kind) return false;
      if (v.kind == K_INT) {
        int x = rnd(NI);
        trace << ind << xn(x) << " := load(" << pn(p) << "," << rn(R) << ")\n";
        inv.ref_load(E.pv[p], E.rg[R], E.iv[x]);
        c.idef[x] = true; c.ival[x] = v.i;
      } else if (v.kind == K_BOOL) {
        int b = rnd(NB);
        trace << ind << bn(b) << " := load(" << pn(p) << "," << rn(R) << ")\n";
        inv.ref_load(E.pv[p], E.rg[R], E.bv[b]);
        c.bdef[b] = true; c.bval[b] = v.i;
      } else {
        int q = rnd(NP);
        trace << ind << pn(q) << " := load(" << pn(p) << "," << rn(R) << ")\n";
        inv.ref_load(E.pv[p], E.rg[R], E.pv[q]);
        c.pdef[q] = true; c.pval[q] = v.r;
      }
      return true;
    } else if (k < 58) { // region_copy
      int R1 = rnd(E.rg.size()), R2 = rnd(E.rg.size());
      if (R1 == R2 || E.rk[R1] != E.rk[R2]) return false;
      trace << ind << "region_copy(" << rn(R2) << " := " << rn(R1) << ")\n";
      inv.region_copy(E.rg[R2], E.rg[R1]);
      invalidate_region_refs(c, R2);
      c.cells[R2] = c.cells[R1];
      return true;
    } else if (k < 64) { // region_cast
      int R1 = rnd(E.rg.size()), R2 = rnd(E.rg.size());
      if (R1 == R2 || ((E.rk[R1] == K_UNK) == (E.rk[R2] == K_UNK))) return false;
      trace << ind << "region_cast(" << rn(R1) << " -> " << rn(R2) << ")\n";
      inv.region_cast(E.rg[R1], E.rg[R2]);
      invalidate_region_refs(c, R2);
      c.cells[R2] = c.cells[R1];
      return true;
    } else if (k < 70) { // int ops
      int x = rnd(NI);
      int m = rnd(3);
      if (m == 0) {
        long v = rnd(12) - 2;
        trace << ind << xn(x) << " := " << v << "\n";
        inv.assign(E.iv[x], z_lin_exp_t(z_number(v)));
        c.idef[x] = true; c.ival[x] = v;
      } else if (m == 1) {
        int y = pick_defined_int(c);
        if (y < 0) return false;
        long cst = rnd(5) - 1;
        trace << ind << xn(x) << " := " << xn(y) << " + " << cst << "\n";
        inv.assign(E.iv[x], z_lin_exp_t(E.iv[y]) + z_number(cst));
        long nv = c.ival[y] + cst;
        c.idef[x] = true; c.ival[x] = nv;
      } else {
        trace << ind << "havoc(" << xn(x) << ")\n";
        inv -= E.iv[x];
        c.idef[x] = true; c.ival[x] = rnd(30) - 10;
      }
      return true;
    } else if (k < 76) { // bool ops
      int b = rnd(NB);
      int m = rnd(4);
      if (m == 0) {
        bool v = coin();
        trace << ind << bn(b) << " := " << (v ? "true" : "false") << "\n";
        inv.assign_bool_cst(E.bv[b], v ? z_lin_cst_t::get_true() : z_lin_cst_t::get_false());
        c.bdef[b] = true; c.bval[b] = v;
      } else if (m == 1) {
        int x = pick_defined_int(c);
        if (x < 0) return false;
        long cst = rnd(10);
        trace << ind << bn(b) << " := (" << xn(x) << " <= " << cst << ")\n";
        inv.assign_bool_cst(E.bv[b], z_lin_cst_t(z_lin_exp_t(E.iv[x]) <= z_number(cst)));
        c.bdef[b] = true; c.bval[b] = (c.ival[x] <= cst);
      } else {
        int p = pick_defined_ref(c, false, false);
        if (p < 0) return false;
        if (coin(40)) {
          bool eq = coin();
          trace << ind << bn(b) << " := (" << pn(p) << (eq ? " == " : " != ") << "NULL)\n";
          inv.assign_bool_ref_cst(E.bv[b], eq ? z_ref_cst_t::mk_null(E.pv[p])
                                              : z_ref_cst_t::mk_not_null(E.pv[p]));
          c.bdef[b] = true; c.bval[b] = eq ? c.pval[p].null : !c.pval[p].null;
        } else {
          int q = pick_defined_ref(c, false, false);
          if (q < 0 || q == p) return false;
          bool eq = coin();
          trace << ind << bn(b) << " := (" << pn(p) << (eq ? " == " : " != ") << pn(q) << ")\n";
          inv.assign_bool_ref_cst(E.bv[b], eq ? z_ref_cst_t::mk_eq(E.pv[p], E.pv[q])
                                              : z_ref_cst_t::mk_not_eq(E.pv[p], E.pv[q]));
          bool same = c.pval[p].addr == c.pval[q].addr;
          c.bdef[b] = true; c.bval[b] = eq ? same : !same;
        }
      }
      return true;
    } else if (k < 84) { // assumes
      int m = rnd(4);
      if (m == 0) {
        int x = pick_defined_int(c);
        if (x < 0) return false;
        long cst = c.ival[x] + rnd(3);
        trace << ind << "assume(" << xn(x) << " <= " << cst << ")\n";
        inv += z_lin_cst_t(z_lin_exp_t(E.iv[x]) <= z_number(cst));
      } else if (m == 1) {
        int b = pick_defined_bool(c);
        if (b < 0) return false;
        trace << ind << "assume(" << (c.bval[b] ? "" : "!") << bn(b) << ")\n";
        inv.assume_bool(E.bv[b], !c.bval[b]);
      } else if (m == 2) {
        int p = pick_defined_ref(c, false, false);
        if (p < 0) return false;
        if (c.pval[p].null) {
          trace << ind << "assume(" << pn(p) << " == NULL)\n";
          inv.ref_assume(z_ref_cst_t::mk_null(E.pv[p]));
        } else {
          if (coin()) {
            trace << ind << "assume(" << pn(p) << " != NULL)\n";
            inv.ref_assume(z_ref_cst_t::mk_not_null(E.pv[p]));
          } else {
            trace << ind << "assume(" << pn(p) << " > NULL)\n";
            inv.ref_assume(z_ref_cst_t::mk_gt_null(E.pv[p]));
          }
        }
      } else {
        int p = pick_defined_ref(c, false, false);
        int q = pick_defined_ref(c, false, false);
        if (p < 0 || q < 0 || p == q) return false;
        long d = c.pval[p].addr - c.pval[q].addr;
        if (d == 0) {
          trace << ind << "assume(" << pn(p) << " == " << pn(q) << ")\n";
          inv.ref_assume(z_ref_cst_t::mk_eq(E.pv[p], E.pv[q]));
        } else if (d > -100 && d < 100 && coin()) {
          trace << ind << "assume(" << pn(p) << " == " << pn(q) << " + " << d << ")\n";
          inv.ref_assume(z_ref_cst_t::mk_eq(E.pv[p], E.pv[q], z_number(d)));
        } else if (coin()) {
          trace << ind << "assume(" << pn(p) << " != " << pn(q) << ")\n";
          inv.ref_assume(z_ref_cst_t::mk_not_eq(E.pv[p], E.pv[q]));
        } else if (d < 0) {
          trace << ind << "assume(" << pn(p) << " < " << pn(q) << ")\n";
          inv.ref_assume(z_ref_cst_t::mk_lt(E.pv[p], E.pv[q]));
        } else {
          trace << ind << "assume(" << pn(p) << " >= " << pn(q) << ")\n";
          inv.ref_assume(z_ref_cst_t::mk_ge(E.pv[p], E.pv[q]));
        }
      }
      return true;
    } else if (k < 88) { // ref_to_int / int_to_ref
      if (coin()) {
        int p = pick_defined_ref(c, false, false);
        if (p < 0) return false;
        int x = rnd(NI);
        int R = c.pval[p].rgn >= 0 ? c.pval[p].rgn : rnd(E.rg.size());
        trace << ind << xn(x) << " := ref_to_int(" << rn(R) << "," << pn(p) << ")\n";
        inv.ref_to_int(E.rg[R], E.pv[p], E.iv[x]);
        c.idef[x] = true; c.ival[x] = c.pval[p].addr;
      } else {
        int x = pick_defined_int(c);
        if (x < 0) return false;
        long a = c.ival[x];
        RefVal r;
        if (a != 0) {
          int found = -1;
          for (unsigned o = 0; o < c.objs.size(); o++)
            if (a >= c.objs[o].base && a <= c.objs[o].base + c.objs[o].size) found = o;
          if (found < 0) return false;
          r.null = false; r.addr = a; r.obj = found;
        }
        int R = rnd(E.rg.size());
        if (r.obj >= 0 && !c.objs[r.obj].rgns.count(R)) return false;
        r.rgn = R;
        int p = rnd(NP);
        trace << ind << pn(p) << " := int_to_ref(" << xn(x) << "," << rn(R) << ")\n";
        inv.int_to_ref(E.iv[x], E.rg[R], E.pv[p]);
        c.pdef[p] = true; c.pval[p] = r;
      }
      return true;
    } else if (k < 92) { // select_ref
      int b = pick_defined_bool(c);
      if (b < 0) return false;
      int lhs = rnd(NP);
      int R = rnd(E.rg.size());
      int p1 = coin(75) ? pick_defined_ref(c, true, false) : -1;
      int p2 = coin(75) ? pick_defined_ref(c, true, false) : -1;
      if (p1 >= 0 && c.pval[p1].rgn < 0) p1 = -1;
      if (p2 >= 0 && c.pval[p2].rgn < 0) p2 = -1;
      z_var_or_cst_t a1 = p1 >= 0 ? z_var_or_cst_t(E.pv[p1]) : z_var_or_cst_t::make_reference_null();
      z_var_or_cst_t a2 = p2 >= 0 ? z_var_or_cst_t(E.pv[p2]) : z_var_or_cst_t::make_reference_null();
      boost::optional<z_var> g1, g2;
      if (p1 >= 0) g1 = E.rg[c.pval[p1].rgn];
      if (p2 >= 0) g2 = E.rg[c.pval[p2].rgn];
      trace << ind << pn(lhs) << "," << rn(R) << " := select_ref(" << bn(b) << ", "
            << (p1 >= 0 ? pn(p1) + ":" + rn(c.pval[p1].rgn) : std::string("NULL")) << ", "
            << (p2 >= 0 ? pn(p2) + ":" + rn(c.pval[p2].rgn) : std::string("NULL")) << ")\n";
      RefVal res;
      int src = c.bval[b] ? p1 : p2;
      if (src >= 0) { res = c.pval[src]; res.rgn = R; if (res.obj >= 0) c.objs[res.obj].rgns.insert(R); }
      inv.select_ref(E.pv[lhs], E.rg[R], E.bv[b], a1, g1, a2, g2);
      c.pdef[lhs] = true; c.pval[lhs] = res;
      return true;
    } else if (k < 94) { // free
      int p = pick_defined_ref(c, true, true);
      if (p < 0) return false;
      trace << ind << "remove_ref(" << rn(c.pval[p].rgn) << "," << pn(p) << ")\n";
      inv.ref_free(E.rg[c.pval[p].rgn], E.pv[p]);
      c.objs[c.pval[p].obj].freed = true;
      return true;
    } else if (k < 98) { // intrinsics
      int p = pick_defined_ref(c, false, false);
      if (p < 0 || c.pval[p].rgn < 0) return false;
      int b = rnd(NB);
      RefVal r = c.pval[p];
      if (coin() && P_deref) {
        if (r.null || r.obj < 0) return false;
        long sz = 4 * (1 + rnd(3));
        trace << ind << bn(b) << " := is_dereferenceable(" << rn(r.rgn) << "," << pn(p) << "," << sz << ")\n";
        inv.intrinsic("is_dereferenceable", {z_var_or_cst_t(E.rg[r.rgn]), z_var_or_cst_t(E.pv[p]), icst(sz)}, {E.bv[b]});
        long off = r.addr - c.objs[r.obj].base;
        c.bdef[b] = true; c.bval[b] = (off >= 0 && off + sz <= c.objs[r.obj].size);
        return true;
      } else if (P_dealloc) {
        trace << ind << bn(b) << " := is_unfreed_or_null(" << rn(r.rgn) << "," << pn(p) << ")\n";
        inv.intrinsic("is_unfreed_or_null", {z_var_or_cst_t(E.rg[r.rgn]), z_var_or_cst_t(E.pv[p])}, {E.bv[b]});
        c.bdef[b] = true; c.bval[b] = (r.null || r.obj < 0 || !c.objs[r.obj].freed);
        return true;
      }
      return false;
    } else { // forget / project / rename
      int m = rnd(5);
      if (P_dealloc && (m == 1 || m == 4)) m = 0;
      if (m == 0) {
        int p = rnd(NP);
        trace << ind << "havoc(" << pn(p) << ")\n";
        inv -= E.pv[p];
        c.pdef[p] = false;
        return true;
      } else if (m == 1) {
        // forget a vector of variables (one int, one ref, one region)
        int p = rnd(NP), x = rnd(NI), R = rnd(E.rg.size());
        trace << ind << "forget({" << pn(p) << "," << xn(x) << "," << rn(R) << "})\n";
        inv.forget({E.pv[p], E.iv[x], E.rg[R]});
        c.pdef[p] = false; c.idef[x] = false;
        // region contents are unchanged concretely; the domain just forgets
        return true;
      } else if (m == 2) {
        // project on everything except one ref and one int
        int p = rnd(NP), x = rnd(NI);
        std::vector<z_var> keep;
        for (int i = 0; i < NP; i++) if (i != p) keep.push_back(E.pv[i]);
        for (int i = 0; i < NI; i++) if (i != x) keep.push_back(E.iv[i]);
        for (int i = 0; i < NB; i++) keep.push_back(E.bv[i]);
        for (unsigned i = 0; i < E.rg.size(); i++) keep.push_back(E.rg[i]);
        trace << ind << "project(all but " << pn(p) << "," << xn(x) << ")\n";
        inv.project(keep);
        c.pdef[p] = false; c.idef[x] = false;
        return true;
      } else if (m == 3) {
        // rename a ref and an int to themselves via fresh temporaries
        int p = rnd(NP), x = rnd(NI);
        z_var tp(E.vfac["tmp_p"], crab::REF_TYPE, 32);
        z_var tx(E.vfac["tmp_x"], crab::INT_TYPE, 32);
        trace << ind << "rename(" << pn(p) << "," << xn(x) << " -> tmp -> back)\n";
        inv -= tp; inv -= tx; inv -= E.xs; inv -= E.ps;
        inv.rename({E.pv[p], E.iv[x]}, {tp, tx});
        inv.rename({tp, tx}, {E.pv[p], E.iv[x]});
        return true;
      } else {
        int R = rnd(E.rg.size());
        trace << ind << "havoc_region(" << rn(R) << ")\n";
        inv -= E.rg[R];
        return true;
      }
    }
  }

  void run_block(Dom &inv, CState &c, int n, const std::string &ind, int depth) {
    for (int i = 0; i < n; i++) {
      if (depth < 2 && coin(8)) {
        // fork / join
        Dom invB(inv);
        CState cB(c);
        trace << ind << "if (*) {\n";
        run_block(inv, c, 1 + rnd(5), ind + "  ", depth + 1);
        trace << ind << "} else {\n";
        run_block(invB, cB, 1 + rnd(5), ind + "  ", depth + 1);
        int jm = rnd(5);
        Dom A(inv);
        if (jm == 0) { trace << ind << "} join A|B\n"; inv = A | invB; }
        else if (jm == 1) { trace << ind << "} join B|A\n"; inv = invB | A; }
        else if (jm == 2) { trace << ind << "} join A|=B\n"; inv |= invB; }
        else if (jm == 3) { trace << ind << "} widen A||B\n"; inv = A || invB; }
        else { trace << ind << "} widen B||A\n"; inv = invB || A; }
        check(inv, c, "after join (left state)");
        check(inv, cB, "after join (right state)");
        if (coin(30)) {
          trace << ind << "meet with left branch\n";
          Dom M = inv & A;
          check(M, c, "after meet J&A");
          Dom N = A & inv;
          check(N, c, "after meet A&J");
          Dom NN = inv && A;
          check(NN, c, "after narrowing J&&A");
          if (coin()) { inv = M; continue; }
        }
        if (coin()) { c = cB; trace << ind << "(continue with right concrete state)\n"; }
      } else {
        int tries = 0;
        while (!step(inv, c, ind) && tries++ < 20)
          ;
        if (getenv("FZ_VERBOSE")) { crab::CrabEnableLog("region-print"); crab::crab_string_os sos; sos << inv; trace << ind << "      // " << sos.str() << "\n"; }
        check(inv, c, "after statement");
      }
    }
  }

  void run(unsigned seed) {
    rng.seed(seed);
    P_alloc = coin(70); P_dealloc = coin(); P_tag = coin(); P_deref = coin();
    P_skip = coin(50);
    region_domain_params p(P_alloc, P_dealloc, P_tag, P_deref, P_skip);
    crab_domain_params_man::get().update_params(p);
    Dom inv;
    CState c;
    c.idef.assign(NI, false); c.bdef.assign(NB, false); c.pdef.assign(NP, false);
    c.ival.assign(NI, 0); c.bval.assign(NB, false); c.pval.assign(NP, RefVal());
    c.cells.resize(E.rg.size());
    for (unsigned R = 0; R < E.rg.size(); R++) {
      trace << "region_init(" << rn(R) << ")\n";
      inv.region_init(E.rg[R]);
    }
    run_block(inv, c, 25 + rnd(30), "", 0);
  }
};

template <class Dom> int driver(const char *name, unsigned from, unsigned to) {
  int bad = 0, crash = 0;
  for (unsigned s = from; s < to; s++) {
    pid_t pid = fork();
    if (pid == 0) {
      crab::CrabEnableWarningMsg(false);
      Env E;
      Fuzz<Dom> F(E);
      g_trace = &F.trace; atexit(dump_trace_at_exit);
      F.run(s);
      _exit(0);
    }
    int st = 0;
    waitpid(pid, &st, 0);
    if (WIFEXITED(st) && WEXITSTATUS(st) == 42) {
      printf("[%s] seed %u: VIOLATION\n", name, s);
      bad++;
    } else if (!(WIFEXITED(st) && WEXITSTATUS(st) == 0)) {
      printf("[%s] seed %u: crash/exit %d\n", name, s, st);
      crash++;
    }
    fflush(stdout);
  }
  printf("[%s] violations=%d crashes=%d\n", name, bad, crash);
  return bad;
}

#define RGN(T) region_domain<TestRegionParams<T>>
int main(int argc, char **argv) {
  unsigned from = argc > 2 ? atoi(argv[2]) : 0, to = argc > 3 ? atoi(argv[3]) : 200;
  std::string d = argc > 1 ? argv[1] : "int";
#ifdef SET1
  if (d == "int") return driver<z_rgn_int_t>("int", from, to);
  if (d == "sdbm") return driver<z_rgn_sdbm_t>("sdbm", from, to);
  if (d == "boolint") return driver<z_rgn_bool_int_t>("boolint", from, to);
  if (d == "const") return driver<z_rgn_constant_t>("const", from, to);
#endif
#ifdef SET2
  if (d == "soct") return driver<RGN(z_soct_domain_t)>("soct", from, to);
  if (d == "dbm") return driver<RGN(z_dbm_domain_t)>("dbm", from, to);
  if (d == "term") return driver<RGN(z_term_domain_t)>("term", from, to);
  if (d == "termdbm") return driver<RGN(z_term_dbm_t)>("termdbm", from, to);
#endif
#ifdef SET3
  if (d == "ric") return driver<RGN(z_ric_domain_t)>("ric", from, to);
  if (d == "disint") return driver<RGN(z_dis_interval_domain_t)>("disint", from, to);
  if (d == "num") return driver<RGN(z_num_domain_t)>("num", from, to);
  if (d == "tvpi") return driver<RGN(z_fixed_tvpi_domain_t)>("tvpi", from, to);
#endif
#ifdef SET4
  if (d == "boolnum") return driver<RGN(z_bool_num_domain_t)>("boolnum", from, to);
  if (d == "lw") return driver<RGN(z_soct_domain_lw_t)>("lw", from, to);
  if (d == "wrapped") return driver<RGN(z_wrapped_interval_domain_t)>("wrapped", from, to);
  if (d == "aabool") return driver<RGN(z_aa_bool_int_t)>("aabool", from, to);
  if (d == "boolsdbm") return driver<RGN(flat_boolean_numerical_domain<z_sdbm_domain_t>)>("boolsdbm", from, to);
#endif
  return 0;
}
