// DISCOVERY AID - NOT A REGISTERED CHECK (see domfuzz.cpp).  Random directed graphs (self loops, nested / irreducible
// cycles, nodes unreachable from the entry, random successor orders) are built as CFGs without statements; the weak
// topological ordering is computed and checked against C07: every node reachable from the entry occurs exactly once, no
// unreachable node occurs, for every edge u->v either u precedes v or v is the head of a component containing u, and
// nesting(n) lists exactly the heads of the components that strictly enclose n, outermost first.
// build: g++ -w -std=c++11 -O1 -DNDEBUG -I/repo/include -I/repo/_build/include -I/repo/tests wtofuzz.cpp <libCrab.a> -lgmp -o wtofuzz
// run:   ./wtofuzz <first seed> <number of seeds> [max nodes]
#include "crab_lang.hpp"
#include <crab/fixpoint/wto.hpp>
#include <crab/cfg/cfg_bgl.hpp>
#include <map>
#include <set>
#include <vector>
#include <cstdlib>
using namespace crab::cfg_impl;
typedef ikos::wto<z_cfg_ref_t> wto_t;
struct rng { unsigned long long s; rng(unsigned long long x) : s(x * 2862933555777941757ULL + 3037000493ULL) {}
  unsigned next() { s ^= s << 13; s ^= s >> 7; s ^= s << 17; return (unsigned)(s >> 11); }
  int in(int lo, int hi) { return lo + (int)(next() % (unsigned)(hi - lo + 1)); } };

struct collector : public ikos::wto_component_visitor<z_cfg_ref_t> {
  std::vector<std::string> order;                         // linear order of the nodes
  std::map<std::string, std::vector<std::string>> enclosing;   // node -> heads of the components strictly enclosing it (outermost first)
  std::map<std::string, std::set<std::string>> members;   // head -> nodes of its component (head included)
  std::vector<std::string> stack;
  void add(const std::string &n, bool is_head) {
    order.push_back(n);
    enclosing[n] = stack;
    for (auto &h : stack) members[h].insert(n);
    if (is_head) members[n].insert(n);
  }
  void visit(wto_vertex_t &v) override { add(v.node(), false); }
  void visit(wto_cycle_t &c) override {
    add(c.head(), true);
    stack.push_back(c.head());
    for (auto it = c.begin(); it != c.end(); ++it) it->accept(this);
    stack.pop_back();
  }
  typedef ikos::wto_vertex<z_cfg_ref_t> wto_vertex_t;
  typedef ikos::wto_cycle<z_cfg_ref_t> wto_cycle_t;
};

int main(int argc, char **argv) {
  unsigned long long first = argc > 1 ? strtoull(argv[1], 0, 10) : 1; int count = argc > 2 ? atoi(argv[2]) : 1000; int maxn = argc > 3 ? atoi(argv[3]) : 9;
  int bad = 0;
  for (int i = 0; i < count && bad < 3; i++) {
    rng r(first + i);
    int n = r.in(1, maxn);
    std::vector<std::string> names; for (int k = 0; k < n; k++) names.push_back("n" + std::to_string(k));
    int entry = r.in(0, n - 1);
    z_cfg_t cfg(names[entry]);
    std::vector<z_basic_block_t *> bb; for (int k = 0; k < n; k++) bb.push_back(&cfg.insert(names[k]));
    int ne = r.in(0, 2 * n + 2);
    std::set<std::pair<int, int>> edges; std::vector<std::pair<int, int>> elist;
    for (int e = 0; e < ne; e++) { int u = r.in(0, n - 1), v = r.in(0, n - 1); if (edges.insert({u, v}).second) { *bb[u] >> *bb[v]; elist.push_back({u, v}); } }
    z_cfg_ref_t g(cfg);
    wto_t w(g);
    collector c; for (auto it = w.begin(); it != w.end(); ++it) it->accept(&c);
    // reachable set
    std::set<int> reach; std::vector<int> wl(1, entry); while (!wl.empty()) { int u = wl.back(); wl.pop_back(); if (!reach.insert(u).second) continue; for (auto &e : elist) if (e.first == u) wl.push_back(e.second); }
    std::vector<std::string> errs;
    std::map<std::string, int> pos; for (size_t k = 0; k < c.order.size(); k++) { if (pos.count(c.order[k])) errs.push_back(c.order[k] + " occurs twice"); pos[c.order[k]] = (int)k; }
    for (int u : reach) if (!pos.count(names[u])) errs.push_back("reachable node " + names[u] + " missing");
    for (int u = 0; u < n; u++) if (!reach.count(u) && pos.count(names[u])) errs.push_back("unreachable node " + names[u] + " present");
    for (auto &e : elist) { if (!reach.count(e.first)) continue; const std::string &u = names[e.first], &v = names[e.second]; if (!pos.count(u) || !pos.count(v)) continue;
      bool fwd = pos[u] < pos[v]; bool back = c.members.count(v) && c.members[v].count(u);
      if (!fwd && !back) errs.push_back("edge " + u + "->" + v + " neither forward nor into an enclosing head"); }
    for (int u : reach) { const std::string &nm = names[u]; auto nest = w.nesting(nm);
      if (!nest) { errs.push_back("nesting(" + nm + ") not reported"); continue; }
      std::vector<std::string> got; for (auto it = nest->begin(); it != nest->end(); ++it) got.push_back(*it);
      if (got != c.enclosing[nm]) { std::string s = "nesting(" + nm + ") = ["; for (auto &x : got) s += x + " "; s += "] expected ["; for (auto &x : c.enclosing[nm]) s += x + " "; errs.push_back(s + "]"); } }
    if (!errs.empty()) { bad++; crab::outs() << "MALFORMED seed " << (first + i) << " entry " << names[entry] << " edges:"; for (auto &e : elist) crab::outs() << " " << names[e.first] << "->" << names[e.second];
      crab::outs() << "\n  wto: " << w << "\n"; for (auto &s : errs) crab::outs() << "  " << s << "\n"; }
  }
  crab::outs() << "wto: " << count << " graphs, " << bad << " malformed\n";
  return bad ? 1 : 0;
}
