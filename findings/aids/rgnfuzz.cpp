// DISCOVERY AID - NOT A REGISTERED CHECK (see domfuzz.cpp).  Random sequences of region / reference operations (region
// initialisation, allocation, offsetting, store, load, region copy) mixed with scalar operations and joins / widenings are
// applied to the region domain and to explicit concrete heaps; after every step the scalars of every concrete state must be
// described by the abstract value.  Loads are only generated from cells that were written before in every concrete state
// ("reads of never-written cells are outside the model").
// build: g++ -w -std=c++11 -O1 -DNDEBUG -I/repo/include -I/repo/_build/include -I/repo/tests rgnfuzz.cpp <libCrab.a> -lgmp -o rgnfuzz
#include "crab_lang.hpp"
#include "crab_dom.hpp"
#include <array>
#include <map>
#include <set>
#include <sstream>
#include <cstdlib>
using namespace crab::cfg_impl;
using namespace crab::domain_impl;
using namespace ikos;
using namespace crab::domains;
static const int NS = 2, NR = 3, NG = 2;     // scalars x,y ; references p,q (region R) and r (region S) ; regions R,S
typedef std::pair<int, int> addr_t;          // (allocation id, offset); id 0 = not defined yet
struct cstate { std::array<long, NS> s; std::array<addr_t, NR> ref; std::array<std::map<addr_t, long>, NG> mem;
  bool operator<(const cstate &o) const { return std::tie(s, ref, mem) < std::tie(o.s, o.ref, o.mem); } };
typedef std::set<cstate> cset;
struct rng { unsigned long long s; rng(unsigned long long x) : s(x * 2862933555777941757ULL + 3037000493ULL) {}
  unsigned next() { s ^= s << 13; s ^= s >> 7; s ^= s << 17; return (unsigned)(s >> 11); }
  int in(int lo, int hi) { return lo + (int)(next() % (unsigned)(hi - lo + 1)); } };
static int g_next_id = 1;
static std::map<int, long> g_site_of;   // allocation id -> index of the allocation site (tag) that created it

template <class Dom> struct fuzz {
  variable_factory_t vfac; crab::tag_manager as_man; std::vector<z_var> sc, rf, rg; std::vector<std::string> trace; rng r;
  z_var_or_cst_t size4;
  fuzz(unsigned long long seed) : r(seed), size4(z_number(4), crab::variable_type(crab::INT_TYPE, 32)) {
    sc.push_back(z_var(vfac["x"], crab::INT_TYPE, 32)); sc.push_back(z_var(vfac["y"], crab::INT_TYPE, 32));
    rf.push_back(z_var(vfac["p"], crab::REF_TYPE, 32)); rf.push_back(z_var(vfac["q"], crab::REF_TYPE, 32)); rf.push_back(z_var(vfac["r"], crab::REF_TYPE, 32));
    rg.push_back(z_var(vfac["R"], crab::REG_INT_TYPE, 32)); rg.push_back(z_var(vfac["S"], crab::REG_INT_TYPE, 32)); }
  static int region_of(int refidx) { return refidx < 2 ? 0 : 1; }
  void log(const std::string &s) { trace.push_back(s); }
  bool check(Dom &d, const cset &cs, const char *what) {
    for (auto &c : cs) { Dom e(d); for (int k = 0; k < NS; k++) e += (sc[k] == z_number(c.s[k]));
      if (e.is_bottom()) { crab::outs() << "UNSOUND after " << what << ": scalars (x=" << c.s[0] << ",y=" << c.s[1] << ") not in " << d << "\n  trace:\n"; for (auto &t : trace) crab::outs() << "    " << t << "\n"; return false; } }
    // C15: a definite answer of get_allocation_sites lists the site of every allocation a reference can point to
    for (int p = 0; p < NR; p++) { std::vector<crab::allocation_site> sites; Dom q(d);
      if (!q.get_allocation_sites(rf[p], sites)) continue;
      for (auto &c : cs) { if (c.ref[p].first == 0) continue; long want = g_site_of[c.ref[p].first]; bool found = false; for (auto &st : sites) if ((long)st.index() == want) found = true;
        if (!found) { crab::outs() << "UNSOUND after " << what << ": " << rf[p].name().str() << " points to an allocation made at site " << want << " which get_allocation_sites does not list (" << sites.size() << " sites) in " << d << "\n  trace:\n"; for (auto &t : trace) crab::outs() << "    " << t << "\n"; return false; } } }
    return true; }
  static void cap(cset &cs, rng &r) { while (cs.size() > 100) { auto it = cs.begin(); std::advance(it, r.next() % cs.size()); cs.erase(it); } }
  bool all_defined(const cset &cs, int ref) { for (auto &c : cs) if (c.ref[ref].first == 0) return false; return true; }
  bool all_written(const cset &cs, int ref) { for (auto &c : cs) { if (c.ref[ref].first == 0) return false; if (!c.mem[region_of(ref)].count(c.ref[ref])) return false; } return true; }
  bool step(Dom &d, cset &cs, int depth) {
    if (cs.empty()) return true;
    int k = r.in(0, 99); std::ostringstream os;
    if (k < 16) { // allocation
      int p = r.in(0, NR - 1); os << rf[p].name().str() << " := make_ref(" << rg[region_of(p)].name().str() << ")"; log(os.str());
      crab::tag site = as_man.mk_tag();
      d.ref_make(rf[p], rg[region_of(p)], size4, site);
      int id = ++g_next_id; g_site_of[id] = (long)site.index(); cset n; for (auto s : cs) { s.ref[p] = addr_t(id, 0); n.insert(s); } cs = n; return check(d, cs, "make_ref");
    } else if (k < 36) { // store
      int p = r.in(0, NR - 1); if (!all_defined(cs, p)) return true; bool cst = r.in(0, 1); int val = r.in(-4, 4), x = r.in(0, NS - 1);
      os << "store(" << rf[p].name().str() << ", " << (cst ? std::to_string(val) : sc[x].name().str()) << ")"; log(os.str());
      if (cst) d.ref_store(rf[p], rg[region_of(p)], z_var_or_cst_t(z_number((long)val), crab::variable_type(crab::INT_TYPE, 32))); else d.ref_store(rf[p], rg[region_of(p)], z_var_or_cst_t(sc[x]));
      cset n; for (auto s : cs) { s.mem[region_of(p)][s.ref[p]] = cst ? val : s.s[x]; n.insert(s); } cs = n; return check(d, cs, "store");
    } else if (k < 56) { // load
      int p = r.in(0, NR - 1); if (!all_written(cs, p)) return true; int x = r.in(0, NS - 1);
      os << sc[x].name().str() << " := load(" << rf[p].name().str() << ")"; log(os.str());
      d.ref_load(rf[p], rg[region_of(p)], sc[x]);
      cset n; for (auto s : cs) { s.s[x] = s.mem[region_of(p)][s.ref[p]]; n.insert(s); } cs = n; return check(d, cs, "load");
    } else if (k < 66) { // offsetting inside region R: q := p + off   (or p := q + off, or p := p + off)
      int src = r.in(0, 1), dst = r.in(0, 1); if (!all_defined(cs, src)) return true; int off = 4 * r.in(0, 2);
      os << rf[dst].name().str() << " := gep(" << rf[src].name().str() << " + " << off << ")"; log(os.str());
      d.ref_gep(rf[src], rg[0], rf[dst], rg[0], z_number((long)off));
      cset n; for (auto s : cs) { s.ref[dst] = addr_t(s.ref[src].first, s.ref[src].second + off); n.insert(s); } cs = n; return check(d, cs, "gep");
    } else if (k < 76) { // scalar
      int x = r.in(0, NS - 1), y = r.in(0, NS - 1), c0 = r.in(-3, 3);
      if (r.in(0, 1)) { os << sc[x].name().str() << " := " << sc[y].name().str() << " + " << c0; log(os.str()); d.apply(OP_ADDITION, sc[x], sc[y], z_number((long)c0)); cset n; for (auto s : cs) { s.s[x] = s.s[y] + c0; n.insert(s); } cs = n; }
      else { cset n; for (auto &s : cs) if (s.s[x] <= c0) n.insert(s); if (n.empty()) return true; os << "assume " << sc[x].name().str() << " <= " << c0; log(os.str()); d += (sc[x] <= z_number((long)c0)); cs = n; }
      return check(d, cs, "scalar");
    } else if (k < 80) { // havoc a scalar
      int x = r.in(0, NS - 1); os << "havoc " << sc[x].name().str(); log(os.str()); d -= sc[x];
      cset n; for (auto s : cs) for (long v = -3; v <= 3; v += 3) { s.s[x] = v; n.insert(s); } cs = n; cap(cs, r); return check(d, cs, "havoc");
    } else if (depth < 2) { // fork
      bool widen = r.in(0, 4) == 0; log("fork {"); Dom d1(d), d2(d); cset c1(cs), c2(cs);
      int n1 = r.in(1, 3), n2 = r.in(0, 3);
      for (int q = 0; q < n1; q++) if (!step(d1, c1, depth + 1)) return false;
      log("} else {"); for (int q = 0; q < n2; q++) if (!step(d2, c2, depth + 1)) return false;
      log(widen ? "} widen" : "} join");
      if (d1 <= d2) { if (!check(d2, c1, "d1 <= d2 answered yes (states of d1 against d2)")) return false; }
      if (d2 <= d1) { if (!check(d1, c2, "d2 <= d1 answered yes (states of d2 against d1)")) return false; }
      d = widen ? (d1 || d2) : (d1 | d2); cs = c1; cs.insert(c2.begin(), c2.end()); cap(cs, r);
      return check(d, cs, widen ? "widen" : "join");
    }
    return true;
  }
  bool run(int steps) {
    Dom d; cset cs;
    for (int t = 0; t < 4; t++) { cstate s; s.s[0] = r.in(-2, 2); s.s[1] = r.in(-2, 2); for (int i = 0; i < NR; i++) s.ref[i] = addr_t(0, 0); cs.insert(s); }
    for (int k = 0; k < NS; k++) { d += (sc[k] >= z_number(-2)); d += (sc[k] <= z_number(2)); }
    d.region_init(rg[0]); d.region_init(rg[1]);
    log("init: x, y in [-2,2]; region_init(R); region_init(S)");
    if (!check(d, cs, "init")) return false;
    for (int q = 0; q < steps; q++) if (!step(d, cs, 0)) return false;
    return true;
  }
};
template <class Dom> int drive(const char *name, unsigned long long first, int count, int steps) {
  int bad = 0;
  for (int i = 0; i < count; i++) { fuzz<Dom> f(first + i); if (!f.run(steps)) { crab::outs() << "  ^ domain " << name << " seed " << (first + i) << "\n"; if (++bad >= 3) break; } }
  crab::outs() << name << ": " << count << " seeds, " << bad << " failing\n"; return bad;
}
int main(int argc, char **argv) {
  crab::CrabEnableWarningMsg(false);
  region_domain_params p(true, true, true, false, true); crab_domain_params_man::get().update_params(p);
  // domain parameters: PARAMS="array_adaptive.is_smashable=false,region.tag_analysis=false,..."
  if (const char *ps = getenv("PARAMS")) { std::string p(ps); size_t i = 0; while (i < p.size()) { size_t j = p.find(',', i); if (j == std::string::npos) j = p.size(); std::string kv = p.substr(i, j - i); size_t e = kv.find('=');
      if (e != std::string::npos) crab::domains::crab_domain_params_man::get().set_param(kv.substr(0, e), kv.substr(e + 1)); i = j + 1; } }
  std::string dn = argc > 1 ? argv[1] : "rgnint";
  unsigned long long first = argc > 2 ? strtoull(argv[2], 0, 10) : 1; int count = argc > 3 ? atoi(argv[3]) : 100, steps = argc > 4 ? atoi(argv[4]) : 10;
#define D(n, T) if (dn == n) return drive<T>(n, first, count, steps) ? 1 : 0;
  D("rgnint", z_rgn_int_t) D("rgnsdbm", z_rgn_sdbm_t) D("rgnbool", z_rgn_bool_int_t) D("rgnaa", z_rgn_aa_int_t) D("rgncst", z_rgn_constant_t) D("rgnsign", z_rgn_sign_t)
  crab::outs() << "unknown domain\n"; return 2;
}
