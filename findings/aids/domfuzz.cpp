// DISCOVERY AID - NOT A REGISTERED CHECK.  Nothing in MANIFEST.json runs this file.
// Random straight-line / branching sequences of abstract-domain operations over four integer variables are applied
// to an abstract value and, in lock step, to an explicit finite set of concrete states; after every step every
// concrete state must be described by the abstract value.  A failure prints the trace (seed + operations) so that it
// can be replayed by hand, the defect understood, repaired, and a STATIC rule written that reports it on the
// unrepaired tree (see DESIGN.md, "Discovery aids are not checks").
//
// build: g++ -w -std=c++11 -O1 -DNDEBUG -I/repo/include -I/repo/_build/include -I/repo/tests domfuzz.cpp /repo/_build/lib/libCrab.a -lgmp -o domfuzz
// run:   ./domfuzz <domain> <first seed> <number of seeds> [steps]
#include "crab_lang.hpp"
#include "crab_dom.hpp"
#include <crab/domains/numerical_packing.hpp>
#include <crab/domains/value_partitioning_domain.hpp>
#include <crab/domains/congruences.hpp>
#include <array>
#include <set>
#include <sstream>
#include <cstdlib>
using namespace crab::cfg_impl;
using namespace crab::domain_impl;
using namespace ikos;
using namespace crab::domains;

static const int NV = 4;
static const int NB = 2;   // Boolean variables (only exercised when use_bool is set)
typedef std::array<long, NV + NB> cstate;
typedef std::set<cstate> cset;
static const size_t CAP = 400;

struct rng { unsigned long long s; rng(unsigned long long x) : s(x * 2862933555777941757ULL + 3037000493ULL) {}
  unsigned next() { s ^= s << 13; s ^= s >> 7; s ^= s << 17; return (unsigned)(s >> 11); }
  int in(int lo, int hi) { return lo + (int)(next() % (unsigned)(hi - lo + 1)); } };

static long tdiv(long a, long b) { return a / b; }

template <class Dom> struct fuzz {
  variable_factory_t vfac;
  std::vector<z_var> v;
  std::vector<z_var> bv;
  bool use_bool = false;
  std::vector<std::string> trace;
  rng r;
  bool failed = false;
  fuzz(unsigned long long seed) : r(seed) {
    const char *names[NV] = {"a", "b", "c", "d"};
    for (int i = 0; i < NV; i++) v.push_back(z_var(vfac[names[i]], crab::INT_TYPE, 32));
    const char *bnames[NB] = {"p", "q"};
    for (int i = 0; i < NB; i++) bv.push_back(z_var(vfac[bnames[i]], crab::BOOL_TYPE, 1));
  }
  void log(const std::string &s) { trace.push_back(s); }
  bool contains(Dom d, const cstate &c) {
    for (int i = 0; i < NV; i++) { d += (v[i] == z_number(c[i])); if (d.is_bottom()) return false; }
    if (use_bool) for (int i = 0; i < NB; i++) { d.assume_bool(bv[i], c[NV + i] == 0 /*negated*/); if (d.is_bottom()) return false; }
    return !d.is_bottom();
  }
  bool check(Dom &d, const cset &cs, const char *what) {
    for (auto &c : cs) if (!contains(d, c)) {
      failed = true;
      crab::outs() << "UNSOUND after " << what << ": state (";
      for (int i = 0; i < NV; i++) crab::outs() << v[i] << "=" << c[i] << ",";
      for (int i = 0; i < NB; i++) crab::outs() << bv[i] << "=" << c[NV + i] << (i + 1 < NB ? "," : "");
      crab::outs() << ") not in " << d << "\n  trace:\n";
      for (auto &t : trace) crab::outs() << "    " << t << "\n";
      return false; }
    return true;
  }
  static void cap(cset &cs, rng &r) { while (cs.size() > CAP) { auto it = cs.begin(); std::advance(it, r.next() % cs.size()); cs.erase(it); } }

  z_lin_exp_t rnd_exp(int &c0, int c[NV], int maxterms) {
    c0 = r.in(-4, 4); z_lin_exp_t e(z_number((long)c0));
    for (int i = 0; i < NV; i++) c[i] = 0;
    int nt = r.in(0, maxterms);
    for (int t = 0; t < nt; t++) { int i = r.in(0, NV - 1); int k = r.in(-3, 3); c[i] += k; }
    for (int i = 0; i < NV; i++) if (c[i]) e = e + z_number((long)c[i]) * v[i];
    return e;
  }
  static long eval(int c0, const int c[NV], const cstate &s) { long x = c0; for (int i = 0; i < NV; i++) x += (long)c[i] * s[i]; return x; }

  // one random operation applied to (d, cs); returns false on failure
  // value semantics (C16): a copy taken before an operation on d must print the same afterwards
  bool step(Dom &d, cset &cs, int depth) {
    if (cs.empty()) return true;
    if (getenv("QUERIES") && r.in(0, 4) == 0) {   // C16: read-only queries / normalisation between two operations change nothing
      int q = r.in(0, 6); if (q == 5 && !getenv("DISJ")) q = 2;   // products / dis_intervals / regions end the process in to_disjunctive_... (CRAB_ERROR), see DESIGN
      static const char *qn[] = {"normalize()", "minimize()", "to_linear_constraint_system()", "is_top()/is_bottom()", "interval query", "to_disjunctive_linear_constraint_system()", "query on a copy"};
      log(std::string("[query] ") + qn[q]);
      if (q == 0) d.normalize(); else if (q == 1) d.minimize(); else if (q == 2) { auto c = d.to_linear_constraint_system(); (void)c; }
      else if (q == 3) { (void)d.is_top(); (void)d.is_bottom(); } else if (q == 4) { auto i = d[v[r.in(0, NV - 1)]]; (void)i; }
      else if (q == 5) { auto c = d.to_disjunctive_linear_constraint_system(); (void)c; } else { Dom c(d); c.normalize(); auto l = c.to_linear_constraint_system(); (void)l; c -= v[0]; }
      if (!check(d, cs, qn[q])) return false;
    }
    if (depth == 0 && r.in(0, 3) == 0) {
      Dom keep(d); crab::crab_string_os b1; b1 << keep; std::string before = b1.str();
      bool ok = step_op(d, cs, depth);
      crab::crab_string_os b2; b2 << keep; std::string after = b2.str();
      if (ok && before != after) { failed = true; crab::outs() << "COPY CHANGED: a copy taken before the last operation printed\n   " << before << "\n and now prints\n   " << after << "\n  trace:\n"; for (auto &t : trace) crab::outs() << "    " << t << "\n"; return false; }
      return ok;
    }
    return step_op(d, cs, depth);
  }
  bool step_op(Dom &d, cset &cs, int depth) {
    if (cs.empty()) return true;
    if (getenv("EXTRAOPS") && r.in(0, 5) == 0) {   // project / expand / rename / forget(vector): the operations the other steps never call
      int q = r.in(0, 3), x = r.in(0, NV - 1), y = (x + r.in(1, NV - 1)) % NV; std::ostringstream o2;
      if (q == 0) { std::vector<z_var> keep; o2 << "project {"; for (int i = 0; i < NV; i++) if (i == x || r.in(0, 1)) { keep.push_back(v[i]); o2 << " " << v[i].name().str(); } o2 << " }"; if (use_bool) { keep.push_back(bv[0]); keep.push_back(bv[1]); } log(o2.str());
        d.project(keep); return check(d, cs, "project"); }
      if (q == 1) { o2 << "forget " << v[y].name().str() << "; expand(" << v[x].name().str() << ", " << v[y].name().str() << ")"; log(o2.str());
        d -= v[y]; d.expand(v[x], v[y]); cset n; for (auto s : cs) { s[y] = s[x]; n.insert(s); } for (auto s : cs) { n.insert(s); if (n.size() > CAP) break; }   // y takes any value x can take: y = x and, for two states, swapped
        cset n2; for (auto s : cs) { s[y] = s[x]; n2.insert(s); } cs = n2; return check(d, cs, "expand"); }
      if (q == 2 && getenv("NORENAME")) q = 3;   // the packing domains keep a forgotten variable in their partition and rename onto it ends the process
      if (q == 2) { o2 << "forget " << v[y].name().str() << "; rename " << v[x].name().str() << " -> " << v[y].name().str(); log(o2.str());
        d -= v[y]; d.rename({v[x]}, {v[y]}); cset n; for (auto s : cs) { s[y] = s[x]; s[x] = r.in(-6, 6); n.insert(s); } cs = n; return check(d, cs, "rename"); }
      { o2 << "forget {" << v[x].name().str() << ", " << v[y].name().str() << "}"; log(o2.str()); d.forget({v[x], v[y]});
        cset n; for (auto s : cs) { s[x] = r.in(-6, 6); s[y] = r.in(-6, 6); n.insert(s); } cs = n; return check(d, cs, "forget vector"); }
    }
    int k = r.in(0, 99);
    std::ostringstream os;
    if (use_bool && r.in(0, 99) < 35) {
      int kb = r.in(0, 99); int p = r.in(0, NB - 1), q = r.in(0, NB - 1);
      if (kb < 35) { // p := (linear constraint)
        int c0, c[NV]; z_lin_exp_t e = rnd_exp(c0, c, 2); int kind = r.in(0, 2);
        static const char *kn[] = {"<= 0", "== 0", "!= 0"};
        os << bv[p].name().str() << " := (" << c0; for (int i = 0; i < NV; i++) if (c[i]) os << " + " << c[i] << "*" << v[i].name().str(); os << " " << kn[kind] << ")"; log(os.str());
        z_lin_cst_t cst = kind == 0 ? z_lin_cst_t(e <= z_number(0)) : kind == 1 ? z_lin_cst_t(e == z_number(0)) : z_lin_cst_t(e != z_number(0));
        d.assign_bool_cst(bv[p], cst);
        cset n; for (auto s : cs) { long val = eval(c0, c, s); s[NV + p] = (kind == 0 ? val <= 0 : kind == 1 ? val == 0 : val != 0) ? 1 : 0; n.insert(s); } cs = n;
        return check(d, cs, "bool := cst");
      } else if (kb < 50) { // p := q / !q
        bool neg = r.in(0, 1); os << bv[p].name().str() << " := " << (neg ? "!" : "") << bv[q].name().str(); log(os.str());
        d.assign_bool_var(bv[p], bv[q], neg);
        cset n; for (auto s : cs) { s[NV + p] = neg ? 1 - s[NV + q] : s[NV + q]; n.insert(s); } cs = n;
        return check(d, cs, "bool := var");
      } else if (kb < 65) { // p := q op r
        int r2 = r.in(0, NB - 1); int op = r.in(0, 2); static const char *on[] = {"&", "|", "^"};
        os << bv[p].name().str() << " := " << bv[q].name().str() << " " << on[op] << " " << bv[r2].name().str(); log(os.str());
        d.apply_binary_bool(op == 0 ? OP_BAND : op == 1 ? OP_BOR : OP_BXOR, bv[p], bv[q], bv[r2]);
        cset n; for (auto s : cs) { long a = s[NV + q], b = s[NV + r2]; s[NV + p] = op == 0 ? (a & b) : op == 1 ? (a | b) : (a ^ b); n.insert(s); } cs = n;
        return check(d, cs, "bool binop");
      } else if (kb < 88) { // assume p / !p
        bool neg = r.in(0, 1);
        cset n; for (auto &s : cs) if ((s[NV + p] != 0) != neg) n.insert(s);
        if (n.empty()) return true;
        os << "assume " << (neg ? "!" : "") << bv[p].name().str(); log(os.str());
        d.assume_bool(bv[p], neg); cs = n;
        return check(d, cs, "assume bool");
      } else { // havoc p
        os << "havoc " << bv[p].name().str(); log(os.str());
        d -= bv[p];
        cset n; for (auto s : cs) { s[NV + p] = 0; n.insert(s); s[NV + p] = 1; n.insert(s); } cs = n; cap(cs, r);
        return check(d, cs, "havoc bool");
      }
    }
    if (k < 22) { // assign
      int x = r.in(0, NV - 1), c0, c[NV]; z_lin_exp_t e = rnd_exp(c0, c, 2);
      os << v[x].name().str() << " := " ; os << c0; for (int i = 0; i < NV; i++) if (c[i]) os << " + " << c[i] << "*" << v[i].name().str(); log(os.str());
      d.assign(v[x], e);
      cset n; for (auto s : cs) { long val = eval(c0, c, s); s[x] = val; n.insert(s); } cs = n;
      return check(d, cs, "assign");
    } else if (k < 40) { // apply with constant
      int x = r.in(0, NV - 1), y = r.in(0, NV - 1); int kk = r.in(-4, 4); int op = r.in(0, 3);
      if (op == 3 && kk == 0) kk = 2;
      static const char *on[] = {"+", "-", "*", "/"};
      os << v[x].name().str() << " := " << v[y].name().str() << " " << on[op] << " " << kk; log(os.str());
      arith_operation_t aop = op == 0 ? OP_ADDITION : op == 1 ? OP_SUBTRACTION : op == 2 ? OP_MULTIPLICATION : OP_SDIV;
      d.apply(aop, v[x], v[y], z_number((long)kk));
      cset n; for (auto s : cs) { long a = s[y]; s[x] = op == 0 ? a + kk : op == 1 ? a - kk : op == 2 ? a * kk : tdiv(a, kk); n.insert(s); } cs = n;
      return check(d, cs, "apply-const");
    } else if (k < 52) { // apply with variable
      int x = r.in(0, NV - 1), y = r.in(0, NV - 1), z = r.in(0, NV - 1); int op = r.in(0, 3);
      static const char *on[] = {"+", "-", "*", "/"};
      if (op == 3) { // divisor must not be zero: assume it first (abstractly and concretely)
        os << "assume " << v[z].name().str() << " != 0; "; d += (v[z] != z_number(0));
        cset n; for (auto &s : cs) if (s[z] != 0) n.insert(s); cs = n; if (cs.empty()) { log(os.str()); return true; } }
      os << v[x].name().str() << " := " << v[y].name().str() << " " << on[op] << " " << v[z].name().str(); log(os.str());
      arith_operation_t aop = op == 0 ? OP_ADDITION : op == 1 ? OP_SUBTRACTION : op == 2 ? OP_MULTIPLICATION : OP_SDIV;
      d.apply(aop, v[x], v[y], v[z]);
      cset n; for (auto s : cs) { long a = s[y], b = s[z]; s[x] = op == 0 ? a + b : op == 1 ? a - b : op == 2 ? a * b : tdiv(a, b); n.insert(s); } cs = n;
      return check(d, cs, "apply-var");
    } else if (k < 74) { // assume
      int c0, c[NV]; z_lin_exp_t e = rnd_exp(c0, c, 2); int kind = r.in(0, 3);
      static const char *kn[] = {"<= 0", "< 0", "== 0", "!= 0"};
      os << "assume " << c0; for (int i = 0; i < NV; i++) if (c[i]) os << " + " << c[i] << "*" << v[i].name().str(); os << " " << kn[kind];
      cset n; for (auto &s : cs) { long val = eval(c0, c, s); bool ok = kind == 0 ? val <= 0 : kind == 1 ? val < 0 : kind == 2 ? val == 0 : val != 0; if (ok) n.insert(s); }
      if (n.empty()) return true;   // keep the concrete set non-empty: skip this assumption altogether
      log(os.str());
      z_lin_cst_t cst = kind == 0 ? z_lin_cst_t(e <= z_number(0)) : kind == 1 ? z_lin_cst_t(e < z_number(0)) : kind == 2 ? z_lin_cst_t(e == z_number(0)) : z_lin_cst_t(e != z_number(0));
      d += cst; cs = n;
      return check(d, cs, "assume");
    } else if (k < 80) { // havoc
      int x = r.in(0, NV - 1); os << "havoc " << v[x].name().str(); log(os.str());
      d -= v[x];
      cset n; for (auto s : cs) for (long val = -6; val <= 6; val += 3) { s[x] = val; n.insert(s); } cs = n; cap(cs, r);
      return check(d, cs, "havoc");
    } else if (k < 92 && depth < 2) { // branch and join / widen / meet
      int how = r.in(0, 9);
      const char *hn = how < 6 ? "join" : how < 8 ? "widen" : "meet";
      log(std::string("fork {"));
      Dom d1(d), d2(d); cset c1(cs), c2(cs);
      int n1 = r.in(1, 3), n2 = r.in(0, 3);
      for (int i = 0; i < n1; i++) if (!step(d1, c1, depth + 1)) return false;
      log("} else {");
      for (int i = 0; i < n2; i++) if (!step(d2, c2, depth + 1)) return false;
      log(std::string("} ") + hn);
      { // C04: a yes of the inclusion test must be an inclusion of the described states; yes on equal values, bottom <= x, x <= top
        if (d1 <= d2) { if (!check(d2, c1, "d1 <= d2 answered yes (states of d1 against d2)")) return false; }
        if (d2 <= d1) { if (!check(d1, c2, "d2 <= d1 answered yes (states of d2 against d1)")) return false; }
        Dom dc(d1), bot, top; bot.set_to_bottom();
        if (!(d1 <= dc) || !(dc <= d1) || !(bot <= d1) || !(d1 <= top)) { failed = true; crab::outs() << "inclusion law fails for " << d1 << ": d<=copy " << (d1 <= dc) << " copy<=d " << (dc <= d1) << " bot<=d " << (bot <= d1) << " d<=top " << (d1 <= top) << "\n";
          for (auto &t : trace) crab::outs() << "    " << t << "\n"; return false; }
      }
      if (how < 6) { d = d1 | d2; cs = c1; cs.insert(c2.begin(), c2.end()); }
      else if (how < 8) { d = d1 || d2; cs = c1; cs.insert(c2.begin(), c2.end()); }
      else { d = d1 & d2; cset n; for (auto &s : c1) if (c2.count(s)) n.insert(s); cs = n; }
      cap(cs, r);
      return check(d, cs, hn);
    } else if (k < 96) { // inclusion sanity: d <= d | x and bottom cases
      Dom top; Dom j = d | d;
      if (!getenv("NOSELFJOIN") && !(d <= j)) { failed = true; Dom dc(d); crab::outs() << "d <= d|d fails for " << d << "\n   d|d = " << j << "\n   d<=d: " << (dc <= d) << "  d|d <= d: " << (j <= d) << "\n";
        for (auto &t : trace) crab::outs() << "    " << t << "\n"; return false; }
      return true;
    } else { // select
      int x = r.in(0, NV - 1), y = r.in(0, NV - 1), z = r.in(0, NV - 1), w = r.in(0, NV - 1);
      os << v[x].name().str() << " := select(" << v[y].name().str() << " <= 0, " << v[z].name().str() << ", " << v[w].name().str() << ")"; log(os.str());
      d.select(v[x], z_lin_cst_t(z_lin_exp_t(v[y]) <= z_number(0)), z_lin_exp_t(v[z]), z_lin_exp_t(v[w]));
      cset n; for (auto s : cs) { s[x] = (s[y] <= 0) ? s[z] : s[w]; n.insert(s); } cs = n;
      return check(d, cs, "select");
    }
  }
  bool run(int steps) {
    Dom d; cset cs;
    // initial box
    int lo = r.in(-3, 0), hi = r.in(0, 3);
    std::ostringstream os; os << "init all in [" << lo << "," << hi << "]"; log(os.str());
    for (int i = 0; i < NV; i++) { d += (v[i] >= z_number((long)lo)); d += (v[i] <= z_number((long)hi)); }
    for (long a = lo; a <= hi; a++) for (long b = lo; b <= hi; b++) for (long c = lo; c <= hi; c++) for (long e = lo; e <= hi; e++) { cstate s = {a, b, c, e, 0, 0}; cs.insert(s); if (use_bool) { s[NV] = 1; cs.insert(s); s[NV + 1] = 1; cs.insert(s); s[NV] = 0; cs.insert(s); } }
    cap(cs, r);
    if (!check(d, cs, "init")) return false;
    if (getenv("VPSTART")) { log("value_partition_start(a)"); d.intrinsic("value_partition_start", {z_var_or_cst_t(v[0])}, {}); }   // for the value partitioning domain
    for (int i = 0; i < steps; i++) if (!step(d, cs, 0)) return false;
    return true;
  }
};

typedef crab::domains::sign_domain<z_number, varname_t> SIGN_DOM; typedef crab::domains::sign_constant_domain<z_number, varname_t> SIGNCST_DOM; typedef ikos::congruence_domain<z_number, varname_t> CONG_DOM;
static bool g_use_bool = false;
// CHAIN=1 (C05): w_{k+1} = w_k widen (w_k | y_k) with y_k = a few random operations applied to w_k (a loop body) must become
// stationary for EVERY sequence y_k: a change in the last third of CHAIN_ITERS (default 300) iterations is reported.
template <class Dom> bool chain(fuzz<Dom> &f, int iters) {
  Dom w; cset cs;
  int lo = f.r.in(-3, 0), hi = f.r.in(0, 3);
  for (int i = 0; i < NV; i++) { w += (f.v[i] >= z_number((long)lo)); w += (f.v[i] <= z_number((long)hi)); }
  { cstate s = {lo, lo, hi, hi, 0, 0}; cs.insert(s); cstate t = {hi, lo, lo, hi, 0, 0}; cs.insert(t); }
  int last_change = -1;
  for (int k = 0; k < iters; k++) {
    Dom y(w); cset cy(cs); f.trace.clear();
    int n = f.r.in(1, 4);
    for (int q = 0; q < n; q++) {
      if (!f.step(y, cy, 2)) return false;
      cset keep; for (auto &st : cy) { bool small = true; for (int i = 0; i < NV; i++) if (st[i] > (1L << 28) || st[i] < -(1L << 28)) small = false; if (small) keep.insert(st); } cy = keep;   // no overflow of the concrete model
    }
    Dom j = w | y; Dom nw = w || j;
    cs.insert(cy.begin(), cy.end()); fuzz<Dom>::cap(cs, f.r);
    if (!f.check(nw, cs, "widening chain")) return false;
    if (!(nw <= w)) last_change = k;
    w = nw;
  }
  if (last_change >= iters - iters / 3) { crab::outs() << "NON-STATIONARY: the widening chain still changed at iteration " << last_change << " of " << iters << "; last value " << w << "\n"; return false; }
  return true;
}
template <class Dom> int drive(const char *name, unsigned long long first, int count, int steps) {
  int bad = 0;
  for (int i = 0; i < count; i++) {
    fuzz<Dom> f(first + i);
    f.use_bool = g_use_bool;
    if (!(getenv("CHAIN") ? chain<Dom>(f, getenv("CHAIN_ITERS") ? atoi(getenv("CHAIN_ITERS")) : 300) : f.run(steps))) { crab::outs() << "  ^ domain " << name << " seed " << (first + i) << "\n"; bad++; if (bad >= 3) break; }
  }
  crab::outs() << name << ": " << count << " seeds, " << bad << " failing\n";
  return bad;
}

int main(int argc, char **argv) {
  crab::CrabEnableWarningMsg(false);
  std::string dn = argc > 1 ? argv[1] : "interval";
  unsigned long long first = argc > 2 ? strtoull(argv[2], 0, 10) : 1;
  int count = argc > 3 ? atoi(argv[3]) : 100, steps = argc > 4 ? atoi(argv[4]) : 12;
  if (dn == "tvpi") crab::domains::crab_domain_params_man::get().coefficients().push_back(2);
  // domain parameters: PARAMS="zones.close_bounds_inline=true,oct.chrome_dijkstra=false,..."
  if (const char *ps = getenv("PARAMS")) { std::string p(ps); size_t i = 0; while (i < p.size()) { size_t j = p.find(',', i); if (j == std::string::npos) j = p.size(); std::string kv = p.substr(i, j - i); size_t e = kv.find('=');
      if (e != std::string::npos) crab::domains::crab_domain_params_man::get().set_param(kv.substr(0, e), kv.substr(e + 1)); i = j + 1; } }
  if (dn.size() > 2 && dn.substr(dn.size() - 2) == "+b") { g_use_bool = true; dn = dn.substr(0, dn.size() - 2); }
#define D(n, T) if (dn == n) return drive<T>(n, first, count, steps) ? 1 : 0;
  D("interval", z_interval_domain_t) D("constant", z_constant_domain_t) D("ric", z_ric_domain_t) D("dbm", z_dbm_domain_t)
  D("sdbm", z_sdbm_domain_t) D("soct", z_soct_domain_t) D("disint", z_dis_interval_domain_t) D("term", z_term_domain_t)
  D("termdbm", z_term_dbm_t) D("num", z_num_domain_t) D("tvpi", z_fixed_tvpi_domain_t) D("boolnum", z_bool_num_domain_t)
  D("boolint", z_bool_interval_domain_t) D("aabool", z_aa_bool_int_t) D("asbool", z_as_bool_num_t) D("aaint", z_aa_int_t) D("assdbm", z_as_sdbm_t) D("lw", z_soct_domain_lw_t) D("powaa", z_pow_aa_int_t)
  D("aaterm", z_aa_term_int_t) D("asdis", z_as_dis_int_t) D("rgnint", z_rgn_int_t) D("rgnsdbm", z_rgn_sdbm_t) D("rgnsign", z_rgn_sign_t) D("rgncst", z_rgn_constant_t) D("rgnsc", z_rgn_sign_constant_t) D("rgnbool", z_rgn_bool_int_t)
  D("pack", crab::domains::numerical_packing_domain<z_sdbm_domain_t>) D("packint", crab::domains::numerical_packing_domain<z_interval_domain_t>) D("vp", crab::domains::product_value_partitioning_domain<z_sdbm_domain_t>)
  D("sign", SIGN_DOM) D("signcst", SIGNCST_DOM) D("cong", CONG_DOM)
  crab::outs() << "unknown domain\n"; return 2;
}
