// DISCOVERY AID - NOT A REGISTERED CHECK (see domfuzz.cpp).  Random sequences of array operations (store at a constant or
// variable index, range store, init, load, array assignment) mixed with scalar operations and joins are applied to an
// array domain and to explicit concrete states (3 scalars, two arrays of 8 four-byte cells); after every step the
// scalars and a sample of cells (read back with array_load on a copy) must be described by the abstract value.
// build: g++ -w -std=c++11 -O1 -DNDEBUG -I/repo/include -I/repo/_build/include -I/repo/tests arrfuzz.cpp <libCrab.a> -lgmp -o arrfuzz
#include "crab_lang.hpp"
#include "crab_dom.hpp"
#include <array>
#include <set>
#include <sstream>
#include <cstdlib>
using namespace crab::cfg_impl;
using namespace crab::domain_impl;
using namespace ikos;
using namespace crab::domains;
static const int NV = 3, NC = 8, ES = 4;
struct cstate { std::array<long, NV> s; std::array<long, NC> A, B; bool operator<(const cstate &o) const { return std::tie(s, A, B) < std::tie(o.s, o.A, o.B); } };
typedef std::set<cstate> cset;
struct rng { unsigned long long s; rng(unsigned long long x) : s(x * 2862933555777941757ULL + 3037000493ULL) {}
  unsigned next() { s ^= s << 13; s ^= s >> 7; s ^= s << 17; return (unsigned)(s >> 11); }
  int in(int lo, int hi) { return lo + (int)(next() % (unsigned)(hi - lo + 1)); } };

template <class Dom> struct fuzz {
  variable_factory_t vfac; std::vector<z_var> v; z_var A, B, tmp; std::vector<std::string> trace; rng r;
  fuzz(unsigned long long seed) : A(vfac["A"], crab::ARR_INT_TYPE, 32), B(vfac["B"], crab::ARR_INT_TYPE, 32), tmp(vfac["tmp"], crab::INT_TYPE, 32), r(seed) {
    const char *n[NV] = {"i", "x", "y"}; for (int k = 0; k < NV; k++) v.push_back(z_var(vfac[n[k]], crab::INT_TYPE, 32)); }
  void log(const std::string &s) { trace.push_back(s); }
  bool fail(const char *what, Dom &d, const std::string &msg) {
    crab::outs() << "UNSOUND after " << what << ": " << msg << " not in " << d << "\n  trace:\n"; for (auto &t : trace) crab::outs() << "    " << t << "\n"; return false; }
  bool check(Dom &d, const cset &cs, const char *what) {
    int cellA = r.in(0, NC - 1), cellB = r.in(0, NC - 1);
    for (auto &c : cs) {
      Dom e(d);
      for (int k = 0; k < NV; k++) { e += (v[k] == z_number(c.s[k])); }
      if (e.is_bottom()) { std::ostringstream os; os << "scalars (i=" << c.s[0] << ",x=" << c.s[1] << ",y=" << c.s[2] << ")"; return fail(what, d, os.str()); }
      for (int pass = 0; pass < 2; pass++) {
        Dom f(e); int cell = pass == 0 ? cellA : cellB; long want = pass == 0 ? c.A[cell] : c.B[cell];
        f.array_load(tmp, pass == 0 ? A : B, z_number(ES), z_number((long)cell * ES));
        f += (tmp == z_number(want));
        if (f.is_bottom()) { std::ostringstream os; os << (pass == 0 ? "A[" : "B[") << cell * ES << "] = " << want << " with (i=" << c.s[0] << ",x=" << c.s[1] << ",y=" << c.s[2] << ")"; return fail(what, d, os.str()); }
      }
    }
    return true;
  }
  static void cap(cset &cs, rng &r) { while (cs.size() > 120) { auto it = cs.begin(); std::advance(it, r.next() % cs.size()); cs.erase(it); } }
  bool step(Dom &d, cset &cs, int depth) {
    if (cs.empty()) return true;
    int k = r.in(0, 99); std::ostringstream os;
    if (k < 14) { // store at a constant index
      int cell = r.in(0, NC - 1), val = r.in(-5, 5); bool useB = r.in(0, 3) == 0;
      os << (useB ? "B[" : "A[") << cell * ES << "] := " << val; log(os.str());
      d.array_store(useB ? B : A, z_number(ES), z_number((long)cell * ES), z_number((long)val), false);
      cset n; for (auto s : cs) { (useB ? s.B : s.A)[cell] = val; n.insert(s); } cs = n; return check(d, cs, "store const");
    } else if (k < 24) { // store a scalar at a constant index
      int cell = r.in(0, NC - 1), x = r.in(1, NV - 1);
      os << "A[" << cell * ES << "] := " << v[x].name().str(); log(os.str());
      d.array_store(A, z_number(ES), z_number((long)cell * ES), z_lin_exp_t(v[x]), false);
      cset n; for (auto s : cs) { s.A[cell] = s.s[x]; n.insert(s); } cs = n; return check(d, cs, "store var");
    } else if (k < 36) { // store at the variable index i (i is kept a multiple of ES within bounds)
      int val = r.in(-5, 5);
      os << "A[i] := " << val; log(os.str());
      d.array_store(A, z_number(ES), z_lin_exp_t(v[0]), z_number((long)val), false);
      cset n; for (auto s : cs) { s.A[s.s[0] / ES] = val; n.insert(s); } cs = n; return check(d, cs, "store at i");
    } else if (k < 46) { // load
      int x = r.in(1, NV - 1); bool atI = r.in(0, 1); int cell = r.in(0, NC - 1);
      os << v[x].name().str() << " := A[" << (atI ? std::string("i") : std::to_string(cell * ES)) << "]"; log(os.str());
      if (atI) d.array_load(v[x], A, z_number(ES), z_lin_exp_t(v[0])); else d.array_load(v[x], A, z_number(ES), z_number((long)cell * ES));
      cset n; for (auto s : cs) { s.s[x] = atI ? s.A[s.s[0] / ES] : s.A[cell]; n.insert(s); } cs = n; return check(d, cs, "load");
    } else if (k < 54) { // range store
      int lo = r.in(0, NC - 1), hi = r.in(lo, NC - 1), val = r.in(-5, 5);
      os << "A[" << lo * ES << ".." << hi * ES << "] := " << val; log(os.str());
      d.array_store_range(A, z_number(ES), z_number((long)lo * ES), z_number((long)hi * ES), z_number((long)val));
      cset n; for (auto s : cs) { for (int c = lo; c <= hi; c++) s.A[c] = val; n.insert(s); } cs = n; return check(d, cs, "store range");
    } else if (k < 58 && !getenv("NORANGE")) { // range store up to i (NORANGE=1 disables it: it triggers the known finding F69)
      int val = r.in(-5, 5);
      os << "A[0..i] := " << val; log(os.str());
      d.array_store_range(A, z_number(ES), z_number(0), z_lin_exp_t(v[0]), z_number((long)val));
      cset n; for (auto s : cs) { for (int c = 0; c <= s.s[0] / ES; c++) s.A[c] = val; n.insert(s); } cs = n; return check(d, cs, "store range to i");
    } else if (k < 62) { // init
      int val = r.in(-5, 5); os << "init B := " << val; log(os.str());
      d.array_init(B, z_number(ES), z_number(0), z_number((long)(NC - 1) * ES), z_number((long)val));
      cset n; for (auto s : cs) { for (int c = 0; c < NC; c++) s.B[c] = val; n.insert(s); } cs = n; return check(d, cs, "init");
    } else if (k < 68) { // array assignment
      bool ab = r.in(0, 1); os << (ab ? "A := B" : "B := A"); log(os.str());
      if (ab) d.array_assign(A, B); else d.array_assign(B, A);
      cset n; for (auto s : cs) { if (ab) s.A = s.B; else s.B = s.A; n.insert(s); } cs = n; return check(d, cs, "array assign");
    } else if (k < 76) { // move the index
      int cell = r.in(0, NC - 1); bool nd = r.in(0, 2) == 0;
      if (nd) { int lo = r.in(0, NC - 1), hi = r.in(lo, NC - 1); os << "i := any multiple of 4 in [" << lo * ES << "," << hi * ES << "]"; log(os.str());
        // i := 4 * x with x havocked in [lo, hi]
        d -= v[1]; d += (v[1] >= z_number((long)lo)); d += (v[1] <= z_number((long)hi)); d.apply(OP_MULTIPLICATION, v[0], v[1], z_number(ES));
        cset n; for (auto s : cs) for (int c = lo; c <= hi; c++) { s.s[1] = c; s.s[0] = c * ES; n.insert(s); } cs = n; cap(cs, r); }
      else { os << "i := " << cell * ES; log(os.str()); d.assign(v[0], z_number((long)cell * ES)); cset n; for (auto s : cs) { s.s[0] = cell * ES; n.insert(s); } cs = n; }
      return check(d, cs, "index");
    } else if (k < 84) { // scalar assign / assume
      int x = r.in(1, NV - 1), c0 = r.in(-3, 3), y = r.in(1, NV - 1);
      if (r.in(0, 1)) { os << v[x].name().str() << " := " << v[y].name().str() << " + " << c0; log(os.str()); d.apply(OP_ADDITION, v[x], v[y], z_number((long)c0));
        cset n; for (auto s : cs) { s.s[x] = s.s[y] + c0; n.insert(s); } cs = n; }
      else { cset n; for (auto &s : cs) if (s.s[x] <= c0) n.insert(s); if (n.empty()) return true; os << "assume " << v[x].name().str() << " <= " << c0; log(os.str()); d += (v[x] <= z_number((long)c0)); cs = n; }
      return check(d, cs, "scalar");
    } else if (depth < 2) { // fork / join
      bool widen = r.in(0, 4) == 0; log("fork {"); Dom d1(d), d2(d); cset c1(cs), c2(cs);
      int n1 = r.in(1, 3), n2 = r.in(0, 3);
      for (int q = 0; q < n1; q++) if (!step(d1, c1, depth + 1)) return false;
      log("} else {"); for (int q = 0; q < n2; q++) if (!step(d2, c2, depth + 1)) return false;
      log(widen ? "} widen" : "} join");
      if (d1 <= d2) { if (!check(d2, c1, "d1 <= d2 answered yes (states of d1 against d2)")) return false; }
      if (d2 <= d1) { if (!check(d1, c2, "d2 <= d1 answered yes (states of d2 against d1)")) return false; }
      d = widen ? (d1 || d2) : (d1 | d2); cs = c1; cs.insert(c2.begin(), c2.end()); cap(cs, r);
      return check(d, cs, widen ? "widen" : "join");
    }
    return true;
  }
  bool run(int steps) {
    Dom d; cset cs;
    // every cell is written before it is read: both arrays are initialised first (reads of never-written cells are not
    // part of what the array domains model)
    int ia = r.in(-3, 3), ib = r.in(-3, 3);
    for (int t = 0; t < 12; t++) { cstate s; s.s[0] = 0; s.s[1] = r.in(-2, 2); s.s[2] = r.in(-2, 2); for (int c = 0; c < NC; c++) { s.A[c] = ia; s.B[c] = ib; } cs.insert(s); }
    d.assign(v[0], z_number(0)); for (int k = 1; k < NV; k++) { d += (v[k] >= z_number(-2)); d += (v[k] <= z_number(2)); }
    d.array_init(A, z_number(ES), z_number(0), z_number((long)(NC - 1) * ES), z_number((long)ia));
    d.array_init(B, z_number(ES), z_number(0), z_number((long)(NC - 1) * ES), z_number((long)ib));
    { std::ostringstream os; os << "init: i = 0, x, y in [-2,2], A := " << ia << ", B := " << ib; log(os.str()); }
    if (!check(d, cs, "init")) return false;
    for (int q = 0; q < steps; q++) if (!step(d, cs, 0)) return false;
    return true;
  }
};
template <class Dom> int drive(const char *name, unsigned long long first, int count, int steps) {
  int bad = 0;
  for (int i = 0; i < count; i++) { fuzz<Dom> f(first + i); if (!f.run(steps)) { crab::outs() << "  ^ domain " << name << " seed " << (first + i) << "\n"; if (++bad >= 3) break; } }
  crab::outs() << name << ": " << count << " seeds, " << bad << " failing\n"; return bad;
}
int main(int argc, char **argv) {
  crab::CrabEnableWarningMsg(false);
  // domain parameters: PARAMS="array_adaptive.is_smashable=false,region.tag_analysis=false,..."
  if (const char *ps = getenv("PARAMS")) { std::string p(ps); size_t i = 0; while (i < p.size()) { size_t j = p.find(',', i); if (j == std::string::npos) j = p.size(); std::string kv = p.substr(i, j - i); size_t e = kv.find('=');
      if (e != std::string::npos) crab::domains::crab_domain_params_man::get().set_param(kv.substr(0, e), kv.substr(e + 1)); i = j + 1; } }
  std::string dn = argc > 1 ? argv[1] : "aaint";
  unsigned long long first = argc > 2 ? strtoull(argv[2], 0, 10) : 1; int count = argc > 3 ? atoi(argv[3]) : 100, steps = argc > 4 ? atoi(argv[4]) : 10;
#define D(n, T) if (dn == n) return drive<T>(n, first, count, steps) ? 1 : 0;
  D("aaint", z_aa_int_t) D("aasdbm", z_aa_sdbm_t) D("aaterm", z_aa_term_int_t) D("aabool", z_aa_bool_int_t) D("asdis", z_as_dis_int_t) D("assdbm", z_as_sdbm_t) D("asbool", z_as_bool_num_t) D("powaa", z_pow_aa_int_t)
  crab::outs() << "unknown domain\n"; return 2;
}
