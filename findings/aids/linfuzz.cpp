// DISCOVERY AID - NOT A REGISTERED CHECK.  Linear expressions / constraints (property C20): random expressions are combined with
// +, -, scaling, negation; constraints are negated and normalised; every result is evaluated under random valuations and compared
// with the combination of the evaluations.
// build: g++ -w -std=c++11 -O1 -DNDEBUG -I/repo/include -I/repo/_build/include -I/repo/tests linfuzz.cpp <libCrab.a> -lgmp -o linfuzz
#include "crab_lang.hpp"
#include "crab_dom.hpp"
#include <map>
#include <cstdlib>
using namespace crab::cfg_impl; using namespace crab::domain_impl; using namespace ikos;
struct rng { unsigned long long s; rng(unsigned long long x) : s(x * 2862933555777941757ULL + 3037000493ULL) {}
  unsigned next() { s ^= s << 13; s ^= s >> 7; s ^= s << 17; return (unsigned)(s >> 11); } int in(int lo, int hi) { return lo + (int)(next() % (unsigned)(hi - lo + 1)); } };
static const int NV = 4;
static long ev(const z_lin_exp_t &e, const long *val, const std::vector<z_var> &v) { long r = (long)(int64_t)e.constant(); for (auto kv : e) { for (int i = 0; i < NV; i++) if (kv.second == v[i]) r += (long)(int64_t)kv.first * val[i]; } return r; }
static bool holds(const z_lin_cst_t &c, const long *val, const std::vector<z_var> &v) { long x = ev(c.expression(), val, v); if (c.is_equality()) return x == 0; if (c.is_disequation()) return x != 0; if (c.is_strict_inequality()) return x < 0; return x <= 0; }
int main(int argc, char **argv) {
  unsigned long long first = argc > 1 ? strtoull(argv[1], 0, 10) : 1; int count = argc > 2 ? atoi(argv[2]) : 2000; int bad = 0;
  variable_factory_t vfac; std::vector<z_var> v; const char *n[NV] = {"a", "b", "c", "d"}; for (int i = 0; i < NV; i++) v.push_back(z_var(vfac[n[i]], crab::INT_TYPE, 32));
  for (int sd = 0; sd < count && bad < 5; sd++) {
    rng r(first + sd);
    auto rexp = [&]() { z_lin_exp_t e(z_number((long)r.in(-4, 4))); int nt = r.in(0, 3); for (int t = 0; t < nt; t++) { int c = r.in(-3, 3); z_var x = v[r.in(0, NV - 1)]; int how = r.in(0, 2); if (how == 0) e = e + z_number((long)c) * x; else if (how == 1) e = e - z_lin_exp_t(x) * z_number((long)c); else e = e + z_lin_exp_t(z_number((long)c), x); } return e; };
    z_lin_exp_t e1 = rexp(), e2 = rexp(); long k = r.in(-3, 3);
    z_lin_exp_t sum = e1 + e2, dif = e1 - e2, sc = e1 * z_number(k), sc2 = z_number(k) * e1, neg = -e1;
    int kind = r.in(0, 3);
    z_lin_cst_t c = kind == 0 ? z_lin_cst_t(e1 <= e2) : kind == 1 ? z_lin_cst_t(e1 < e2) : kind == 2 ? z_lin_cst_t(e1 == e2) : z_lin_cst_t(e1 != e2);
    z_lin_cst_t nc = c.negate();
    z_lin_cst_sys_t sys; sys += c; sys += z_lin_cst_t(e2 <= e1); sys += z_lin_cst_t(rexp() <= rexp()); z_lin_cst_sys_t nsys = sys.normalize();
    for (int t = 0; t < 30; t++) {
      long val[NV]; for (int i = 0; i < NV; i++) val[i] = r.in(-5, 5);
      long a = ev(e1, val, v), b = ev(e2, val, v);
      std::string err;
      if (ev(sum, val, v) != a + b) err = "sum"; else if (ev(dif, val, v) != a - b) err = "difference"; else if (ev(sc, val, v) != a * k || ev(sc2, val, v) != a * k) err = "scaling"; else if (ev(neg, val, v) != -a) err = "negation";
      bool hc = kind == 0 ? a <= b : kind == 1 ? a < b : kind == 2 ? a == b : a != b;
      if (err.empty() && holds(c, val, v) != hc) err = "constraint";
      if (err.empty() && holds(nc, val, v) == hc) err = "negate() is not the complement";
      bool hs = true, hn = true; for (auto &x : sys) hs = hs && holds(x, val, v); for (auto &x : nsys) hn = hn && holds(x, val, v);
      if (err.empty() && hs != hn) err = "normalize() changed the solution set";
      if (err.empty() && c.is_tautology() && !hc) err = "is_tautology"; if (err.empty() && c.is_contradiction() && hc) err = "is_contradiction";
      if (err.empty() && e1.is_constant() != (e1.size() == 0)) err = "is_constant";
      if (err.empty()) { bool cst = true; for (auto kv : (e1 - e2)) if (kv.first != 0) cst = false; if (cst && !c.is_tautology() && !c.is_contradiction()) err = "constant constraint neither tautology nor contradiction"; }
      if (!err.empty()) { bad++; crab::outs() << "MISMATCH seed " << (first + sd) << ": " << err << "  e1 = " << e1 << "  e2 = " << e2 << "  k = " << k << "  c = " << c << "  not c = " << nc << "  sys = " << sys << "  normal form = " << nsys << "\n"; break; }
    }
  }
  crab::outs() << "linfuzz: " << count << " seeds, " << bad << " mismatching\n"; return bad ? 1 : 0;
}
