// DISCOVERY AID - NOT A REGISTERED CHECK (see domfuzz.cpp).  separate_domain<variable, interval> (patricia trees) against a
// std::map model: random set / remove / join / meet / widening / inclusion / project on several values that share structure;
// after every step lookup, iteration and inclusion must agree with the pointwise model (property C19).
// build: g++ -w -std=c++11 -O1 -DNDEBUG -I/repo/include -I/repo/_build/include -I/repo/tests envfuzz.cpp <libCrab.a> -lgmp -o envfuzz
#include "crab_lang.hpp"
#include "crab_dom.hpp"
#include <crab/domains/separate_domains.hpp>
#include <map>
#include <cstdlib>
using namespace crab::cfg_impl; using namespace crab::domain_impl; using namespace ikos;
typedef interval<z_number> I; typedef separate_domain<z_var, I> env_t;
struct model { bool bot = false; std::map<int, std::pair<long, long>> m; };   // absent key = top; intervals are finite [lo,hi]
struct rng { unsigned long long s; rng(unsigned long long x) : s(x * 2862933555777941757ULL + 3037000493ULL) {}
  unsigned next() { s ^= s << 13; s ^= s >> 7; s ^= s << 17; return (unsigned)(s >> 11); } int in(int lo, int hi) { return lo + (int)(next() % (unsigned)(hi - lo + 1)); } };
static const int NK = 12, NE = 4;
int main(int argc, char **argv) {
  unsigned long long first = argc > 1 ? strtoull(argv[1], 0, 10) : 1; int count = argc > 2 ? atoi(argv[2]) : 200; int bad = 0;
  for (int sd = 0; sd < count && bad < 3; sd++) {
    rng r(first + sd); variable_factory_t vfac; std::vector<z_var> k;
    for (int i = 0; i < NK; i++) k.push_back(z_var(vfac["k" + std::to_string(i)], crab::INT_TYPE, 32));
    std::vector<env_t> e(NE); std::vector<model> m(NE); std::vector<std::string> trace;
    auto itv = [](std::pair<long, long> p) { return I(z_number(p.first), z_number(p.second)); };
    auto check = [&](int a, const char *what) -> bool {
      std::string err;
      if (e[a].is_bottom() != m[a].bot) err = "is_bottom";
      if (!m[a].bot) { for (int i = 0; i < NK && err.empty(); i++) { I got = e[a].at(k[i]); auto it = m[a].m.find(i); I want = it == m[a].m.end() ? I::top() : itv(it->second); if (!(got == want)) { crab::crab_string_os os; os << "at(k" << i << ") = " << got << ", model " << want; err = os.str(); } }
        if (err.empty()) { int n = 0; for (auto it = e[a].begin(); it != e[a].end(); ++it) { n++; if (it->second.is_top()) err = "iteration lists a top binding"; } if (err.empty() && n != (int)m[a].m.size()) err = "iteration lists " + std::to_string(n) + " bindings, model has " + std::to_string(m[a].m.size()); } }
      if (!err.empty()) { bad++; crab::outs() << "MISMATCH seed " << (first + sd) << " after " << what << " on e" << a << ": " << err << "\n   value: " << e[a] << "\n"; for (auto &t : trace) crab::outs() << "    " << t << "\n"; return false; }
      return true; };
    bool ok = true;
    for (int step = 0; step < 40 && ok; step++) {
      int op = r.in(0, 99), a = r.in(0, NE - 1), b = r.in(0, NE - 1), key = r.in(0, NK - 1); long lo = r.in(-5, 5), hi = lo + r.in(0, 4);
      if (op < 35) { trace.push_back("e" + std::to_string(a) + ".set(k" + std::to_string(key) + ", [" + std::to_string(lo) + "," + std::to_string(hi) + "])");
        e[a].set(k[key], itv({lo, hi})); if (!m[a].bot) m[a].m[key] = {lo, hi}; ok = check(a, "set"); }
      else if (op < 45) { trace.push_back("e" + std::to_string(a) + " -= k" + std::to_string(key)); e[a] -= k[key]; if (!m[a].bot) m[a].m.erase(key); ok = check(a, "remove"); }
      else if (op < 52) { trace.push_back("e" + std::to_string(a) + " := e" + std::to_string(b)); e[a] = e[b]; m[a] = m[b]; ok = check(a, "copy"); }
      else if (op < 66) { trace.push_back("e" + std::to_string(a) + " := e" + std::to_string(a) + " | e" + std::to_string(b)); e[a] = e[a] | e[b];
        model n; if (m[a].bot) n = m[b]; else if (m[b].bot) n = m[a]; else for (auto &kv : m[a].m) { auto it = m[b].m.find(kv.first); if (it != m[b].m.end()) n.m[kv.first] = {std::min(kv.second.first, it->second.first), std::max(kv.second.second, it->second.second)}; }
        m[a] = n; ok = check(a, "join"); }
      else if (op < 78) { trace.push_back("e" + std::to_string(a) + " := e" + std::to_string(a) + " & e" + std::to_string(b)); e[a] = e[a] & e[b];
        model n; if (m[a].bot || m[b].bot) n.bot = true; else { n = m[a]; for (auto &kv : m[b].m) { auto it = n.m.find(kv.first); if (it == n.m.end()) n.m[kv.first] = kv.second; else { long l = std::max(it->second.first, kv.second.first), h = std::min(it->second.second, kv.second.second); if (l > h) { n.bot = true; n.m.clear(); break; } it->second = {l, h}; } } }
        m[a] = n; ok = check(a, "meet"); }
      else if (op < 88) { // inclusion
        bool got = e[a] <= e[b]; bool want = m[a].bot; if (!want && !m[b].bot) { want = true; for (auto &kv : m[b].m) { auto it = m[a].m.find(kv.first); if (it == m[a].m.end() || it->second.first < kv.second.first || it->second.second > kv.second.second) want = false; } }
        if (got != want) { bad++; ok = false; crab::outs() << "MISMATCH seed " << (first + sd) << ": e" << a << " <= e" << b << " answers " << got << ", model " << want << "\n   " << e[a] << "\n   " << e[b] << "\n"; for (auto &t : trace) crab::outs() << "    " << t << "\n"; } }
      else { // project onto a random subset (given in random order)
        std::vector<z_var> keep; std::vector<int> ki; for (int i = 0; i < NK; i++) if (r.in(0, 2) != 0) ki.push_back(i);
        for (size_t i = ki.size(); i > 1; i--) std::swap(ki[i - 1], ki[r.in(0, (int)i - 1)]);
        std::string t = "e" + std::to_string(a) + ".project({"; for (int i : ki) { keep.push_back(k[i]); t += "k" + std::to_string(i) + " "; } trace.push_back(t + "})");
        e[a].project(keep); if (!m[a].bot) { std::map<int, std::pair<long, long>> n; for (int i : ki) { auto it = m[a].m.find(i); if (it != m[a].m.end()) n[i] = it->second; } m[a].m = n; } ok = check(a, "project"); }
    }
  }
  crab::outs() << "envfuzz: " << count << " seeds, " << bad << " mismatching\n"; return bad ? 1 : 0;
}
