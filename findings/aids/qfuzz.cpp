// DISCOVERY AID - NOT A REGISTERED CHECK (see domfuzz.cpp).  The same lock-step differential as domfuzz over the RATIONALS:
// random assignments with rational coefficients, the four arithmetic operations (exact division), assumptions (<=, <, ==,
// !=) and joins / meets / widenings are applied to q_interval_domain_t and to explicit sets of rational states; every
// state must stay inside the interval of every variable.  (Strict inequalities and divisions are where integer reasoning
// leaks into the rational instance.)
// build: g++ -w -std=c++11 -O1 -DNDEBUG -I/repo/include -I/repo/_build/include -I/repo/tests qfuzz.cpp <libCrab.a> -lgmp -o qfuzz
// run:   ./qfuzz <first seed> <number of seeds> [steps]
#include "crab_lang.hpp"
#include "crab_dom.hpp"
#include <array>
#include <set>
#include <sstream>
#include <cstdlib>
using namespace crab::cfg_impl;
using namespace crab::domain_impl;
using namespace ikos;
using namespace crab::domains;
static const int NV = 3;
typedef std::array<q_number, NV> state_t;
struct lt { bool operator()(const state_t &a, const state_t &b) const { for (int i = 0; i < NV; i++) { if (a[i] < b[i]) return true; if (b[i] < a[i]) return false; } return false; } };
typedef std::set<state_t, lt> cset;
struct rng { unsigned long long s; rng(unsigned long long x) : s(x * 2862933555777941757ULL + 3037000493ULL) {}
  unsigned next() { s ^= s << 13; s ^= s >> 7; s ^= s << 17; return (unsigned)(s >> 11); }
  int in(int lo, int hi) { return lo + (int)(next() % (unsigned)(hi - lo + 1)); } };
static q_number Q(long n, long d = 1) { return q_number(z_number(n), z_number(d)); }

struct fuzz {
  variable_factory_t vfac; std::vector<q_var> v; std::vector<std::string> trace; rng r; bool failed = false;
  fuzz(unsigned long long seed) : r(seed) { const char *n[NV] = {"a", "b", "c"}; for (int i = 0; i < NV; i++) v.push_back(q_var(vfac[n[i]], crab::REAL_TYPE, 0)); }
  void log(const std::string &s) { trace.push_back(s); }
  q_number rq() { int d = r.in(1, 3); return Q(r.in(-4, 4), d); }
  bool check(q_interval_domain_t &d, const cset &cs, const char *what) {
    for (auto &s : cs) for (int i = 0; i < NV; i++) {
      auto itv = d[v[i]];
      bool in = !itv.is_bottom() && itv.lb() <= bound<q_number>(s[i]) && bound<q_number>(s[i]) <= itv.ub();
      if (d.is_bottom() || !in) { failed = true; crab::outs() << "UNSOUND after " << what << ": " << v[i] << " = " << s[i] << " not in " << d << "\n  trace:\n"; for (auto &t : trace) crab::outs() << "    " << t << "\n"; return false; } }
    return true; }
  static void cap(cset &cs, rng &r) { while (cs.size() > 60) { auto it = cs.begin(); std::advance(it, r.next() % cs.size()); cs.erase(it); } }
  bool step(q_interval_domain_t &d, cset &cs, int depth) {
    if (cs.empty()) return true;
    int k = r.in(0, 99); std::ostringstream os; crab::crab_string_os cos;
    if (k < 22) { // x := c0 + c1*y + c2*z
      int x = r.in(0, NV - 1), y = r.in(0, NV - 1), z = r.in(0, NV - 1); q_number c0 = rq(), c1 = rq(), c2 = r.in(0, 1) ? rq() : Q(0);
      q_lin_t e(c0); e = e + c1 * q_lin_t(v[y]) + c2 * q_lin_t(v[z]);
      cos << v[x] << " := " << e; log(cos.str());
      d.assign(v[x], e);
      cset n; for (auto s : cs) { q_number val = c0 + c1 * s[y] + c2 * s[z]; s[x] = val; n.insert(s); } cs = n; return check(d, cs, "assign");
    } else if (k < 50) { // x := y op (z | const)
      int x = r.in(0, NV - 1), y = r.in(0, NV - 1), z = r.in(0, NV - 1), op = r.in(0, 3); bool cst = r.in(0, 1); q_number c = rq();
      static const char *on[] = {"+", "-", "*", "/"}; crab::domains::arith_operation_t ops[] = {OP_ADDITION, OP_SUBTRACTION, OP_MULTIPLICATION, OP_SDIV};
      if (op == 3) { cset n; for (auto &s : cs) if (!((cst ? c : s[z]) == Q(0))) n.insert(s); if (n.empty()) return true; cs = n; }   // executions that divide by zero stop
      cos << v[x] << " := " << v[y] << " " << on[op] << " "; if (cst) cos << c; else cos << v[z]; log(cos.str());
      if (cst) d.apply(ops[op], v[x], v[y], c); else d.apply(ops[op], v[x], v[y], v[z]);
      cset n; for (auto s : cs) { q_number b = cst ? c : s[z]; q_number val = op == 0 ? s[y] + b : op == 1 ? s[y] - b : op == 2 ? s[y] * b : s[y] / b; s[x] = val; n.insert(s); } cs = n;
      return check(d, cs, "apply");
    } else if (k < 75) { // assume c0 + c1*x + c2*y  (<=|<|==|!=) 0
      int x = r.in(0, NV - 1), y = r.in(0, NV - 1), kind = r.in(0, 3); q_number c0 = rq(), c1 = rq(), c2 = r.in(0, 1) ? rq() : Q(0);
      q_lin_t e(c0); e = e + c1 * q_lin_t(v[x]) + c2 * q_lin_t(v[y]);
      q_lin_cst_t cst = kind == 0 ? q_lin_cst_t(e <= q_number(0)) : kind == 1 ? q_lin_cst_t(e < q_number(0)) : kind == 2 ? q_lin_cst_t(e == q_number(0)) : q_lin_cst_t(e != q_number(0));
      cset n; for (auto &s : cs) { q_number val = c0 + c1 * s[x] + c2 * s[y]; bool h = kind == 0 ? val <= Q(0) : kind == 1 ? val < Q(0) : kind == 2 ? val == Q(0) : !(val == Q(0)); if (h) n.insert(s); }
      if (n.empty()) return true;
      cos << "assume " << cst; log(cos.str());
      d += cst; cs = n; return check(d, cs, "assume");
    } else if (k < 82) { // havoc
      int x = r.in(0, NV - 1); cos << "havoc " << v[x]; log(cos.str()); d -= v[x];
      cset n; for (auto s : cs) { s[x] = rq(); n.insert(s); s[x] = rq() * Q(7, 2); n.insert(s); } cs = n; cap(cs, r); return check(d, cs, "havoc");
    } else if (depth < 2) {
      int how = r.in(0, 9); const char *hn = how < 6 ? "join" : how < 8 ? "widen" : "meet";
      log("fork {"); q_interval_domain_t d1(d), d2(d); cset c1(cs), c2(cs);
      int n1 = r.in(1, 3), n2 = r.in(0, 3);
      for (int i = 0; i < n1; i++) if (!step(d1, c1, depth + 1)) return false;
      log("} else {"); for (int i = 0; i < n2; i++) if (!step(d2, c2, depth + 1)) return false;
      log(std::string("} ") + hn);
      if (d1 <= d2) { if (!check(d2, c1, "d1 <= d2 answered yes")) return false; }
      if (how < 6) { d = d1 | d2; cs = c1; cs.insert(c2.begin(), c2.end()); }
      else if (how < 8) { d = d1 || d2; cs = c1; cs.insert(c2.begin(), c2.end()); }
      else { d = d1 & d2; cset n; for (auto &s : c1) if (c2.count(s)) n.insert(s); cs = n; }
      cap(cs, r); return check(d, cs, hn);
    }
    return true;
  }
  bool run(int steps) {
    q_interval_domain_t d; cset cs;
    for (int t = 0; t < 6; t++) { state_t s; for (int i = 0; i < NV; i++) s[i] = Q(r.in(-6, 6), 2); cs.insert(s); }
    for (int i = 0; i < NV; i++) { d += q_lin_cst_t(q_lin_t(v[i]) >= Q(-3)); d += q_lin_cst_t(q_lin_t(v[i]) <= Q(3)); }
    log("init all in [-3,3] (halves)");
    if (!check(d, cs, "init")) return false;
    for (int q = 0; q < steps; q++) if (!step(d, cs, 0)) return false;
    return true;
  }
};
int main(int argc, char **argv) {
  crab::CrabEnableWarningMsg(false);
  unsigned long long first = argc > 1 ? strtoull(argv[1], 0, 10) : 1; int count = argc > 2 ? atoi(argv[2]) : 500, steps = argc > 3 ? atoi(argv[3]) : 10; int bad = 0;
  for (int i = 0; i < count && bad < 3; i++) { fuzz f(first + i); if (!f.run(steps)) { crab::outs() << "  ^ seed " << (first + i) << "\n"; bad++; } }
  crab::outs() << "q_interval: " << count << " seeds, " << bad << " failing\n"; return bad ? 1 : 0;
}
