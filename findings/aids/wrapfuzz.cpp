// DISCOVERY AID - NOT A REGISTERED CHECK (see domfuzz.cpp).  Random programs over three 8-bit variables are run on
// wrapped_interval_domain and, in lock step, on explicit sets of machine states (arithmetic modulo 2^8): linear assignments,
// the 13 binary operations with a variable or constant operand, single-variable signed comparisons (multi-variable constraints
// are the known finding F92), havoc, joins / widenings / meets.  Every machine state must stay inside the wrapped interval of
// every variable (C13, last sentence: programs under machine-integer semantics).
// build: g++ -w -std=c++11 -O1 -DNDEBUG -I/repo/include -I/repo/_build/include -I/repo/tests wrapfuzz.cpp <libCrab.a> -lgmp -o wrapfuzz
// run:   ./wrapfuzz <first seed> <number of seeds> [steps]
#include "crab_lang.hpp"
#include "crab_dom.hpp"
#include <array>
#include <set>
#include <sstream>
#include <cstdlib>
using namespace crab::cfg_impl;
using namespace crab::domain_impl;
using namespace ikos;
using namespace crab::domains;
static const int NV = 3, W = 8;
typedef std::array<int, NV + 1> state_t;      // a, b, c: signed 8-bit values; index NV: the 16-bit variable w
typedef std::set<state_t> cset;
typedef z_wrapped_interval_domain_t Dom;
struct rng { unsigned long long s; rng(unsigned long long x) : s(x * 2862933555777941757ULL + 3037000493ULL) {}
  unsigned next() { s ^= s << 13; s ^= s >> 7; s ^= s << 17; return (unsigned)(s >> 11); }
  int in(int lo, int hi) { return lo + (int)(next() % (unsigned)(hi - lo + 1)); } };
static int sgn(long v) { long u = ((v % 256) + 256) % 256; return u >= 128 ? (int)(u - 256) : (int)u; }
static unsigned uns(int v) { return (unsigned)(v & 0xFF); }
static int sgn16(long v) { long u = ((v % 65536) + 65536) % 65536; return u >= 32768 ? (int)(u - 65536) : (int)u; }

struct fuzz {
  variable_factory_t vfac; std::vector<z_var> v; std::vector<std::string> trace; rng r;
  fuzz(unsigned long long seed) : r(seed) { const char *n[NV] = {"a", "b", "c"}; for (int i = 0; i < NV; i++) v.push_back(z_var(vfac[n[i]], crab::INT_TYPE, W)); v.push_back(z_var(vfac["w"], crab::INT_TYPE, 16)); }
  void log(const std::string &s) { trace.push_back(s); }
  bool check(Dom &d, const cset &cs, const char *what) {
    for (auto &s : cs) { Dom e(d); for (int i = 0; i <= NV; i++) e += (z_lin_exp_t(v[i]) == z_number((long)s[i]));
      if (e.is_bottom()) { crab::outs() << "UNSOUND after " << what << ": state (a=" << s[0] << ",b=" << s[1] << ",c=" << s[2] << ",w=" << s[3] << ") not in " << d << "\n  trace:\n"; for (auto &t : trace) crab::outs() << "    " << t << "\n"; return false; } }
    return true; }
  static void cap(cset &cs, rng &r) { while (cs.size() > 80) { auto it = cs.begin(); std::advance(it, r.next() % cs.size()); cs.erase(it); } }
  bool step(Dom &d, cset &cs, int depth) {
    if (cs.empty()) return true;
    int k = r.in(0, 99); std::ostringstream os;
    if (r.in(0, 5) == 0) {   // widths: w := sext/zext(x8); x8 := trunc(w); 16-bit arithmetic on w (as LEFT operand: the receiver's modulus is used)
      int q = r.in(0, 5), x = r.in(0, NV - 1), c = r.in(-300, 300);
      if (q == 0) { os << "w := sext " << v[x].name().str(); log(os.str()); d.apply(OP_SEXT, v[NV], v[x]); cset n; for (auto s : cs) { s[NV] = s[x]; n.insert(s); } cs = n; return check(d, cs, "sext"); }
      if (q == 1) { os << "w := zext " << v[x].name().str(); log(os.str()); d.apply(OP_ZEXT, v[NV], v[x]); cset n; for (auto s : cs) { s[NV] = (int)uns(s[x]); n.insert(s); } cs = n; return check(d, cs, "zext"); }
      if (q == 2) { os << v[x].name().str() << " := trunc w"; log(os.str()); d.apply(OP_TRUNC, v[x], v[NV]); cset n; for (auto s : cs) { s[x] = sgn(s[NV]); n.insert(s); } cs = n; return check(d, cs, "trunc"); }
      if (q == 3) { os << "w := w + " << c; log(os.str()); d.apply(OP_ADDITION, v[NV], v[NV], z_number((long)c)); cset n; for (auto s : cs) { s[NV] = sgn16((long)s[NV] + c); n.insert(s); } cs = n; return check(d, cs, "w + c"); }
      if (q == 4) { int m = r.in(-5, 5); os << "w := w * " << m; log(os.str()); d.apply(OP_MULTIPLICATION, v[NV], v[NV], z_number((long)m)); cset n; for (auto s : cs) { s[NV] = sgn16((long)s[NV] * m); n.insert(s); } cs = n; return check(d, cs, "w * c"); }
      { os << "w := w - " << c; log(os.str()); d.apply(OP_SUBTRACTION, v[NV], v[NV], z_number((long)c)); cset n; for (auto s : cs) { s[NV] = sgn16((long)s[NV] - c); n.insert(s); } cs = n; return check(d, cs, "w - c"); }
    }
    if (k < 18) { // x := c0 + c1*y + c2*z   (mod 2^8)
      int x = r.in(0, NV - 1), y = r.in(0, NV - 1), z = r.in(0, NV - 1), c0 = r.in(-130, 130), c1 = r.in(-3, 3), c2 = r.in(-2, 2);
      z_lin_exp_t e(z_number((long)c0)); e = e + z_number((long)c1) * z_lin_exp_t(v[y]) + z_number((long)c2) * z_lin_exp_t(v[z]);
      os << v[x].name().str() << " := " << c0 << " + " << c1 << "*" << v[y].name().str() << " + " << c2 << "*" << v[z].name().str(); log(os.str());
      d.assign(v[x], e);
      cset n; for (auto s : cs) { s[x] = sgn((long)c0 + (long)c1 * s[y] + (long)c2 * s[z]); n.insert(s); } cs = n; return check(d, cs, "assign");
    } else if (k < 60) { // x := y op (z | const)
      int x = r.in(0, NV - 1), y = r.in(0, NV - 1), z = r.in(0, NV - 1), op = r.in(0, 12); bool cst = r.in(0, 1); int c = r.in(-128, 127);
      if (op >= 10) { cst = true; c = r.in(0, W - 1); }      // shift amounts: constants below the width
      static const char *on[] = {"+", "-", "*", "sdiv", "udiv", "srem", "urem", "and", "or", "xor", "shl", "lshr", "ashr"};
      bool isdiv = op >= 3 && op <= 6;
      if (isdiv) { cset n; for (auto &s : cs) { int b = cst ? c : s[z]; if (b != 0 && !(op == 3 && s[y] == -128 && b == -1) && !(op == 5 && s[y] == -128 && b == -1)) n.insert(s); } if (n.empty()) return true; cs = n;
        if (cst && c == 0) return true; }
      os << v[x].name().str() << " := " << v[y].name().str() << " " << on[op] << " "; if (cst) os << c; else os << v[z].name().str(); log(os.str());
      if (op < 7) { arith_operation_t ao[] = {OP_ADDITION, OP_SUBTRACTION, OP_MULTIPLICATION, OP_SDIV, OP_UDIV, OP_SREM, OP_UREM};
        if (cst) d.apply(ao[op], v[x], v[y], z_number((long)c)); else d.apply(ao[op], v[x], v[y], v[z]); }
      else { bitwise_operation_t bo[] = {OP_AND, OP_OR, OP_XOR, OP_SHL, OP_LSHR, OP_ASHR};
        if (cst) d.apply(bo[op - 7], v[x], v[y], z_number((long)c)); else d.apply(bo[op - 7], v[x], v[y], v[z]); }
      cset n; for (auto s : cs) { int a = s[y], b = cst ? sgn(c) : s[z]; long res;
        switch (op) { case 0: res = (long)a + b; break; case 1: res = (long)a - b; break; case 2: res = (long)a * b; break;
          case 3: res = a / b; break; case 4: res = uns(a) / uns(b); break; case 5: res = a % b; break; case 6: res = uns(a) % uns(b); break;
          case 7: res = uns(a) & uns(b); break; case 8: res = uns(a) | uns(b); break; case 9: res = uns(a) ^ uns(b); break;
          case 10: res = (long)uns(a) << b; break; case 11: res = uns(a) >> b; break; default: res = a >> b; }
        s[x] = sgn(res); n.insert(s); } cs = n;
      return check(d, cs, on[op]);
    } else if (k < 80) { // assume x (<=|>=|==|!=) k   (signed, one variable)
      int x = r.in(0, NV - 1), kind = r.in(0, 3), c = r.in(-128, 127); static const char *kn[] = {"<=", ">=", "==", "!="};
      cset n; for (auto &s : cs) { bool h = kind == 0 ? s[x] <= c : kind == 1 ? s[x] >= c : kind == 2 ? s[x] == c : s[x] != c; if (h) n.insert(s); } if (n.empty()) return true;
      os << "assume " << v[x].name().str() << " " << kn[kind] << " " << c; log(os.str());
      z_lin_exp_t e(v[x]); d += (kind == 0 ? z_lin_cst_t(e <= z_number((long)c)) : kind == 1 ? z_lin_cst_t(e >= z_number((long)c)) : kind == 2 ? z_lin_cst_t(e == z_number((long)c)) : z_lin_cst_t(e != z_number((long)c)));
      cs = n; return check(d, cs, "assume");
    } else if (k < 86) { int x = r.in(0, NV - 1); os << "havoc " << v[x].name().str(); log(os.str()); d -= v[x];
      cset n; for (auto s : cs) for (int q = 0; q < 3; q++) { s[x] = r.in(-128, 127); n.insert(s); } cs = n; cap(cs, r); return check(d, cs, "havoc");
    } else if (depth < 2) {
      int how = r.in(0, 9); const char *hn = how < 6 ? "join" : how < 8 ? "widen" : "meet";
      log("fork {"); Dom d1(d), d2(d); cset c1(cs), c2(cs); int n1 = r.in(1, 3), n2 = r.in(0, 3);
      for (int i = 0; i < n1; i++) if (!step(d1, c1, depth + 1)) return false;
      log("} else {"); for (int i = 0; i < n2; i++) if (!step(d2, c2, depth + 1)) return false;
      log(std::string("} ") + hn);
      if (d1 <= d2) { if (!check(d2, c1, "d1 <= d2 answered yes")) return false; }
      if (how < 6) { d = d1 | d2; cs = c1; cs.insert(c2.begin(), c2.end()); } else if (how < 8) { d = d1 || d2; cs = c1; cs.insert(c2.begin(), c2.end()); }
      else { d = d1 & d2; cset n; for (auto &s : c1) if (c2.count(s)) n.insert(s); cs = n; }
      cap(cs, r); return check(d, cs, hn);
    }
    return true;
  }
  bool run(int steps) {
    Dom d; cset cs; for (int t = 0; t < 8; t++) { state_t s; for (int i = 0; i < NV; i++) s[i] = r.in(-128, 127); s[NV] = r.in(-32768, 32767); cs.insert(s); }
    log("init: top"); if (!check(d, cs, "init")) return false;
    for (int q = 0; q < steps; q++) if (!step(d, cs, 0)) return false;
    return true;
  }
};
int main(int argc, char **argv) {
  crab::CrabEnableWarningMsg(false);
  unsigned long long first = argc > 1 ? strtoull(argv[1], 0, 10) : 1; int count = argc > 2 ? atoi(argv[2]) : 500, steps = argc > 3 ? atoi(argv[3]) : 10; int bad = 0;
  for (int i = 0; i < count && bad < 3; i++) { fuzz f(first + i); if (!f.run(steps)) { crab::outs() << "  ^ seed " << (first + i) << "\n"; bad++; } }
  crab::outs() << "wrapped_interval_domain: " << count << " seeds, " << bad << " failing\n"; return bad ? 1 : 0;
}
