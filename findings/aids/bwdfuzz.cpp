// (bwdfuzz.cpp: variant of cfgfuzz.cpp for the forward-backward analyzer, property C11 / C02)
// DISCOVERY AID - NOT A REGISTERED CHECK (see domfuzz.cpp).  Random CFGs (branches, loops, self-loops, an entry that
// may be a loop head) over four integer variables are analysed with the forward analyzer under random fixpoint
// parameters; random concrete executions are replayed and every state that enters a block must be described by the
// pre-invariant reported for that block.
// build: g++ -w -std=c++11 -O1 -DNDEBUG -I/repo/include -I/repo/_build/include -I/repo/tests cfgfuzz.cpp <libCrab.a> -lgmp -o cfgfuzz
// run:   ./cfgfuzz <domain> <first seed> <number of seeds>
#include "crab_lang.hpp"
#include "crab_dom.hpp"
#include <crab/analysis/fwd_analyzer.hpp>
#include <crab/analysis/bwd_analyzer.hpp>
#include <array>
#include <sstream>
#include <set>
#include <cstdlib>
using namespace crab::cfg_impl;
using namespace crab::domain_impl;
using namespace ikos;
using namespace crab::domains;

static const int NV = 4;
typedef std::array<long, NV> cstate;
struct rng { unsigned long long s; rng(unsigned long long x) : s(x * 2862933555777941757ULL + 3037000493ULL) {}
  unsigned next() { s ^= s << 13; s ^= s >> 7; s ^= s << 17; return (unsigned)(s >> 11); }
  int in(int lo, int hi) { return lo + (int)(next() % (unsigned)(hi - lo + 1)); } };

// a concrete statement mirrors the CrabIR statement added to the block
struct cstmt { int kind; int x, y, z; int c0; int c[NV]; int op; const void *tag; };   // kind 0 assign lin, 1 binop const, 2 binop var, 3 assume (op: 0 <=, 1 <, 2 ==, 3 !=), 4 havoc
struct cblock { std::vector<cstmt> stmts; std::vector<int> succs; };

static const void *g_violated = nullptr;
static bool exec_block(const cblock &b, cstate &s, rng &r) {
  for (auto &st : b.stmts) {
    if (st.kind == 5) { long v = st.c0; for (int i = 0; i < NV; i++) v += (long)st.c[i] * s[i]; bool ok = st.op == 0 ? v <= 0 : st.op == 1 ? v < 0 : st.op == 2 ? v == 0 : v != 0; if (!ok) { g_violated = st.tag; return false; } continue; }
    if (st.kind == 0) { long v = st.c0; for (int i = 0; i < NV; i++) v += (long)st.c[i] * s[i]; s[st.x] = v; }
    else if (st.kind == 1) { long a = s[st.y], k = st.c0; s[st.x] = st.op == 0 ? a + k : st.op == 1 ? a - k : st.op == 2 ? a * k : a / k; }
    else if (st.kind == 2) { long a = s[st.y], b2 = s[st.z]; if (st.op == 3 && b2 == 0) return false; s[st.x] = st.op == 0 ? a + b2 : st.op == 1 ? a - b2 : st.op == 2 ? a * b2 : a / b2; }
    else if (st.kind == 3) { long v = st.c0; for (int i = 0; i < NV; i++) v += (long)st.c[i] * s[i]; bool ok = st.op == 0 ? v <= 0 : st.op == 1 ? v < 0 : st.op == 2 ? v == 0 : v != 0; if (!ok) return false; }
    else if (st.kind == 4) { s[st.x] = r.in(-6, 6); }
    for (int i = 0; i < NV; i++) if (s[i] > 1000000 || s[i] < -1000000) return false;   // keep the mirror within long
  }
  return true;
}

template <class Dom> int run_one(const char *dn, unsigned long long seed, bool verbose) {
  typedef crab::analyzer::intra_fwd_analyzer<z_cfg_ref_t, Dom> analyzer_t;
  rng r(seed);
  variable_factory_t vfac;
  const char *names[NV] = {"a", "b", "c", "d"};
  std::vector<z_var> v; for (int i = 0; i < NV; i++) v.push_back(z_var(vfac[names[i]], crab::INT_TYPE, 32));
  int nb = r.in(2, 6);
  std::vector<std::string> bn; for (int i = 0; i < nb; i++) bn.push_back("b" + std::to_string(i));
  z_cfg_t cfg(bn[0], bn[nb - 1]);
  std::vector<z_basic_block_t *> bb; for (int i = 0; i < nb; i++) bb.push_back(&cfg.insert(bn[i]));
  std::vector<cblock> cb(nb);
  std::ostringstream desc;
  // edges: a chain plus random forward / backward / self edges (the exit block keeps no successors)
  for (int i = 0; i + 1 < nb; i++) { *bb[i] >> *bb[i + 1]; cb[i].succs.push_back(i + 1); }
  int extra = r.in(0, nb);
  for (int e = 0; e < extra; e++) { int s = r.in(0, nb - 2), t = r.in(0, nb - 1); bool dup = false; for (int x : cb[s].succs) dup |= (x == t); if (dup) continue; *bb[s] >> *bb[t]; cb[s].succs.push_back(t); }
  for (int i = 0; i < nb; i++) {
    desc << bn[i] << ":";
    int ns = r.in(0, 3);
    for (int k = 0; k < ns; k++) {
      cstmt st; st.kind = r.in(0, 9); st.x = r.in(0, NV - 1); st.y = r.in(0, NV - 1); st.z = r.in(0, NV - 1); st.c0 = r.in(-3, 3); st.op = r.in(0, 3);
      for (int j = 0; j < NV; j++) st.c[j] = 0;
      if (st.kind <= 2) { st.kind = 0; int nt = r.in(0, 2); for (int t = 0; t < nt; t++) st.c[r.in(0, NV - 1)] += r.in(-2, 2);
        z_lin_exp_t e(z_number((long)st.c0)); for (int j = 0; j < NV; j++) if (st.c[j]) e = e + z_number((long)st.c[j]) * v[j];
        bb[i]->assign(v[st.x], e); desc << " " << names[st.x] << ":=" << st.c0; for (int j = 0; j < NV; j++) if (st.c[j]) desc << "+" << st.c[j] << names[j]; desc << ";"; }
      else if (st.kind <= 4) { st.kind = 1; if (st.op == 3 && st.c0 == 0) st.c0 = 2;
        if (st.op == 0) bb[i]->add(v[st.x], v[st.y], z_number((long)st.c0)); else if (st.op == 1) bb[i]->sub(v[st.x], v[st.y], z_number((long)st.c0)); else if (st.op == 2) bb[i]->mul(v[st.x], v[st.y], z_number((long)st.c0)); else bb[i]->div(v[st.x], v[st.y], z_number((long)st.c0));
        desc << " " << names[st.x] << ":=" << names[st.y] << "+-*/"[st.op] << st.c0 << ";"; }
      else if (st.kind == 5) { st.kind = 2; if (st.op == 3) st.op = 2;
        if (st.op == 0) bb[i]->add(v[st.x], v[st.y], v[st.z]); else if (st.op == 1) bb[i]->sub(v[st.x], v[st.y], v[st.z]); else bb[i]->mul(v[st.x], v[st.y], v[st.z]);
        desc << " " << names[st.x] << ":=" << names[st.y] << "+-*/"[st.op] << names[st.z] << ";"; }
      else if (st.kind <= 8 && r.in(0, 2) == 0) { st.kind = 5; int nt = r.in(1, 2); for (int t = 0; t < nt; t++) st.c[r.in(0, NV - 1)] += r.in(-2, 2);
        z_lin_exp_t e(z_number((long)st.c0)); for (int j = 0; j < NV; j++) if (st.c[j]) e = e + z_number((long)st.c[j]) * v[j];
        z_lin_cst_t cst = st.op == 0 ? z_lin_cst_t(e <= z_number(0)) : st.op == 1 ? z_lin_cst_t(e < z_number(0)) : st.op == 2 ? z_lin_cst_t(e == z_number(0)) : z_lin_cst_t(e != z_number(0));
        auto *as = bb[i]->assertion(cst); st.tag = (const void *)as; const char *kn[] = {"<=0", "<0", "==0", "!=0"};
        desc << " assert(" << st.c0; for (int j = 0; j < NV; j++) if (st.c[j]) desc << "+" << st.c[j] << names[j]; desc << kn[st.op] << ");"; }
      else if (st.kind <= 8) { st.kind = 3; int nt = r.in(1, 2); for (int t = 0; t < nt; t++) st.c[r.in(0, NV - 1)] += r.in(-2, 2);
        z_lin_exp_t e(z_number((long)st.c0)); for (int j = 0; j < NV; j++) if (st.c[j]) e = e + z_number((long)st.c[j]) * v[j];
        z_lin_cst_t cst = st.op == 0 ? z_lin_cst_t(e <= z_number(0)) : st.op == 1 ? z_lin_cst_t(e < z_number(0)) : st.op == 2 ? z_lin_cst_t(e == z_number(0)) : z_lin_cst_t(e != z_number(0));
        bb[i]->assume(cst); const char *kn[] = {"<=0", "<0", "==0", "!=0"};
        desc << " assume(" << st.c0; for (int j = 0; j < NV; j++) if (st.c[j]) desc << "+" << st.c[j] << names[j]; desc << kn[st.op] << ");"; }
      else { st.kind = 4; bb[i]->havoc(v[st.x]); desc << " havoc " << names[st.x] << ";"; }
      cb[i].stmts.push_back(st);
    }
    desc << " -> "; for (int t : cb[i].succs) desc << bn[t] << " "; desc << "\n";
  }
  crab::fixpoint_parameters params;
  params.get_widening_delay() = r.in(0, 3); params.get_descending_iterations() = r.in(0, 3); params.get_max_thresholds() = r.in(0, 1) ? 0 : 10;
  int lo = r.in(-2, 0), hi = r.in(0, 2);
  Dom init; for (int i = 0; i < NV; i++) { init += (v[i] >= z_number((long)lo)); init += (v[i] <= z_number((long)hi)); }
  typedef crab::analyzer::intra_forward_backward_analyzer<z_cfg_ref_t, Dom> fb_t;
  Dom fac;
  fb_t A(z_cfg_ref_t(cfg), fac);
  typename fb_t::assumption_map_t assumptions;
  crab::analyzer::fwd_bwd_parameters fbp; fbp.enable_backward() = true;
  A.run(init, assumptions, nullptr, params, fbp);
  std::set<const typename fb_t::statement_t *> safe; A.get_safe_assertions(safe);
  int bad = 0;
  for (int t = 0; t < 300 && !bad; t++) {
    cstate s; for (int i = 0; i < NV; i++) s[i] = r.in(lo, hi);
    cstate s0 = s; int cur = 0;
    for (int step = 0; step < 40; step++) {
      g_violated = nullptr;
      bool cont = exec_block(cb[cur], s, r);
      if (g_violated) {
        bool claimed_safe = false; for (auto *p : safe) if ((const void *)p == g_violated) claimed_safe = true;
        if (claimed_safe) {
          crab::outs() << "UNSOUND [" << dn << " seed " << seed << "] an assertion in " << bn[cur] << " is reported SAFE but the execution from (a=" << s0[0] << ",b=" << s0[1] << ",c=" << s0[2] << ",d=" << s0[3]
                       << ") violates it at step " << step << " with (a=" << s[0] << ",b=" << s[1] << ",c=" << s[2] << ",d=" << s[3] << ")\n  delay=" << params.get_widening_delay() << " narrowing=" << params.get_descending_iterations()
                       << " thresholds=" << params.get_max_thresholds() << " init in [" << lo << "," << hi << "]\n" << desc.str();
          bad = 1; }
        break; }
      if (!cont) break;
      if (cb[cur].succs.empty()) break;
      cur = cb[cur].succs[r.in(0, (int)cb[cur].succs.size() - 1)];
    }
  }
  return bad;
}

template <class Dom> int drive(const char *name, unsigned long long first, int count) {
  int bad = 0;
  for (int i = 0; i < count; i++) { bad += run_one<Dom>(name, first + i, false); if (bad >= 3) break; }
  crab::outs() << name << ": " << count << " seeds, " << bad << " failing\n";
  return bad;
}

int main(int argc, char **argv) {
  crab::CrabEnableWarningMsg(false);
  std::string dn = argc > 1 ? argv[1] : "interval";
  unsigned long long first = argc > 2 ? strtoull(argv[2], 0, 10) : 1;
  int count = argc > 3 ? atoi(argv[3]) : 100;
#define D(n, T) if (dn == n) return drive<T>(n, first, count) ? 1 : 0;
  D("interval", z_interval_domain_t) D("ric", z_ric_domain_t) D("dbm", z_dbm_domain_t) D("sdbm", z_sdbm_domain_t) D("soct", z_soct_domain_t)
  D("disint", z_dis_interval_domain_t) D("term", z_term_domain_t) D("num", z_num_domain_t) D("boolnum", z_bool_num_domain_t)
  D("aaint", z_aa_int_t) D("lw", z_soct_domain_lw_t) D("powaa", z_pow_aa_int_t) D("constant", z_constant_domain_t)
  crab::outs() << "unknown domain\n"; return 2;
}
