// DISCOVERY AID - NOT A REGISTERED CHECK (see domfuzz.cpp).  Random programs of three callees and a main (acyclic call
// graph, every function with its own variable names, loops inside functions) are analysed with the top-down and the
// bottom-up inter-procedural analyzers; random concrete executions (with a call stack) are replayed and every state
// that enters a block of any activation must be described by the invariant reported for that block.
// The known findings F14 / F20 / F21 are avoided on purpose: default max_call_contexts, no shared names, no recursion.
// build: g++ -w -std=c++11 -O1 -DNDEBUG -I/repo/include -I/repo/_build/include -I/repo/tests interfuzz.cpp <libCrab.a> -lgmp -o interfuzz
#include "crab_lang.hpp"
#include "crab_dom.hpp"
#include <crab/analysis/graphs/sccg_bgl.hpp>
#include <crab/analysis/inter/bottom_up_inter_analyzer.hpp>
#include <crab/analysis/inter/top_down_inter_analyzer.hpp>
#include <crab/analysis/inter/top_down_inter_params.hpp>
#include <crab/cg/cg_bgl.hpp>
#include <array>
#include <sstream>
#include <cstdlib>
using namespace crab::cfg_impl;
using namespace crab::domain_impl;
using namespace crab::cfg;
using namespace crab::cg;
using namespace crab::analyzer;
using namespace ikos;
static const int NV = 4;     // per function: v0, v1 inputs (v1 only if arity 2), v3 output, v2 local
typedef std::array<long, NV> cstate;
struct rng { unsigned long long s; rng(unsigned long long x) : s(x * 2862933555777941757ULL + 3037000493ULL) {}
  unsigned next() { s ^= s << 13; s ^= s >> 7; s ^= s << 17; return (unsigned)(s >> 11); }
  int in(int lo, int hi) { return lo + (int)(next() % (unsigned)(hi - lo + 1)); } };
struct cstmt { int kind; int x, y, z; int c0; int c[NV]; int op; int callee; };   // 0 assign, 1 binop const, 3 assume, 4 havoc, 6 call x := callee(y[, z])
struct cblock { std::vector<cstmt> stmts; std::vector<int> succs; };
struct cfun { int arity; std::vector<cblock> blocks; std::vector<std::string> bn; z_cfg_t *cfg; std::vector<z_var> v; std::string name; };
typedef call_graph<z_cfg_ref_t> callgraph_t;
struct violation { bool bad = false; std::string msg; };

template <class Analyzer>
static bool run_fun(std::vector<cfun> &fs, int f, cstate s, long &ret, Analyzer &A, rng &r, violation &viol, int &budget, const std::string &an) {
  int cur = 0;
  for (int step = 0; step < 30; step++) {
    if (--budget < 0) return false;
    auto pre = A.get_pre(*fs[f].cfg, fs[f].bn[cur]);
    auto chk(pre); for (int i = 0; i < NV; i++) chk += (fs[f].v[i] == z_number(s[i]));
    if (chk.is_bottom()) { std::ostringstream os; os << an << ": state (" << s[0] << "," << s[1] << "," << s[2] << "," << s[3] << ") enters " << fs[f].name << "::" << fs[f].bn[cur]; crab::crab_string_os cs; cs << pre; viol.bad = true; viol.msg = os.str() + " but the invariant there is " + cs.str(); return false; }
    for (auto &st : fs[f].blocks[cur].stmts) {
      if (st.kind == 0) { long v = st.c0; for (int i = 0; i < NV; i++) v += (long)st.c[i] * s[i]; s[st.x] = v; }
      else if (st.kind == 1) { long a = s[st.y], k = st.c0; s[st.x] = st.op == 0 ? a + k : st.op == 1 ? a - k : a * k; }
      else if (st.kind == 3) { long v = st.c0; for (int i = 0; i < NV; i++) v += (long)st.c[i] * s[i]; bool ok = st.op == 0 ? v <= 0 : st.op == 1 ? v < 0 : st.op == 2 ? v == 0 : v != 0; if (!ok) return false; }
      else if (st.kind == 4) { s[st.x] = r.in(-4, 4); }
      else if (st.kind == 6) { cstate cs; cs.fill(0); cs[0] = s[st.y]; if (fs[st.callee].arity == 2) cs[1] = s[st.z]; cs[2] = r.in(-3, 3); cs[3] = r.in(-3, 3);   // locals / outputs start arbitrary
        long rv; if (!run_fun(fs, st.callee, cs, rv, A, r, viol, budget, an)) return false; s[st.x] = rv; }
      for (int i = 0; i < NV; i++) if (s[i] > 100000 || s[i] < -100000) return false;
    }
    if (fs[f].blocks[cur].succs.empty()) { ret = s[3]; return cur == (int)fs[f].blocks.size() - 1; }
    cur = fs[f].blocks[cur].succs[r.in(0, (int)fs[f].blocks[cur].succs.size() - 1)];
  }
  return false;
}

template <class Dom> int run_one(const char *dn, unsigned long long seed) {
  rng r(seed);
  variable_factory_t vfac;
  const int NF = 4;                 // f0, f1, f2 callees; f3 = main.  fi may only call fj with j < i.
  std::vector<cfun> fs(NF);
  std::ostringstream desc;
  for (int f = 0; f < NF; f++) {
    cfun &F = fs[f]; F.name = f == NF - 1 ? "main" : "f" + std::to_string(f); F.arity = f == NF - 1 ? 0 : r.in(1, 2);
    for (int i = 0; i < NV; i++) F.v.push_back(z_var(vfac[F.name + "_v" + std::to_string(i)], crab::INT_TYPE, 32));
    int nb = r.in(2, 4); for (int i = 0; i < nb; i++) F.bn.push_back("b" + std::to_string(i));
    std::vector<z_var> ins; for (int i = 0; i < F.arity; i++) ins.push_back(F.v[i]);
    function_decl<z_number, varname_t> decl(F.name, ins, {F.v[3]});
    F.cfg = new z_cfg_t(F.bn[0], F.bn[nb - 1], decl);
    std::vector<z_basic_block_t *> bb; for (int i = 0; i < nb; i++) bb.push_back(&F.cfg->insert(F.bn[i]));
    F.blocks.resize(nb);
    for (int i = 0; i + 1 < nb; i++) { *bb[i] >> *bb[i + 1]; F.blocks[i].succs.push_back(i + 1); }
    int extra = r.in(0, 2);
    for (int e = 0; e < extra; e++) { int s = r.in(0, nb - 2), t = r.in(0, nb - 2); bool dup = false; for (int x : F.blocks[s].succs) dup |= (x == t); if (dup) continue; *bb[s] >> *bb[t]; F.blocks[s].succs.push_back(t); }
    desc << F.name << "(" << F.arity << " inputs v0..; output v3)\n";
    for (int i = 0; i < nb; i++) {
      desc << "  " << F.bn[i] << ":";
      int ns = r.in(0, 3);
      for (int k = 0; k < ns; k++) {
        cstmt st; st.kind = r.in(0, 9); st.x = r.in(F.arity, NV - 1); /* inputs are never assigned (documented requirement) */ st.y = r.in(0, NV - 1); st.z = r.in(0, NV - 1); st.c0 = r.in(-3, 3); st.op = r.in(0, 3); st.callee = -1;
        for (int j = 0; j < NV; j++) st.c[j] = 0;
        if (st.kind <= 2) { st.kind = 0; int nt = r.in(0, 2); for (int t = 0; t < nt; t++) st.c[r.in(0, NV - 1)] += r.in(-2, 2);
          z_lin_exp_t e(z_number((long)st.c0)); for (int j = 0; j < NV; j++) if (st.c[j]) e = e + z_number((long)st.c[j]) * F.v[j];
          bb[i]->assign(F.v[st.x], e); desc << " v" << st.x << ":=" << st.c0; for (int j = 0; j < NV; j++) if (st.c[j]) desc << "+" << st.c[j] << "v" << j; desc << ";"; }
        else if (st.kind <= 3) { st.kind = 1; if (st.op == 3) st.op = 0;
          if (st.op == 0) bb[i]->add(F.v[st.x], F.v[st.y], z_number((long)st.c0)); else if (st.op == 1) bb[i]->sub(F.v[st.x], F.v[st.y], z_number((long)st.c0)); else bb[i]->mul(F.v[st.x], F.v[st.y], z_number((long)st.c0));
          desc << " v" << st.x << ":=v" << st.y << "+-*"[st.op] << st.c0 << ";"; }
        else if (st.kind <= 5) { st.kind = 3; int nt = r.in(1, 2); for (int t = 0; t < nt; t++) st.c[r.in(0, NV - 1)] += r.in(-2, 2);
          z_lin_exp_t e(z_number((long)st.c0)); for (int j = 0; j < NV; j++) if (st.c[j]) e = e + z_number((long)st.c[j]) * F.v[j];
          z_lin_cst_t cst = st.op == 0 ? z_lin_cst_t(e <= z_number(0)) : st.op == 1 ? z_lin_cst_t(e < z_number(0)) : st.op == 2 ? z_lin_cst_t(e == z_number(0)) : z_lin_cst_t(e != z_number(0));
          bb[i]->assume(cst); const char *kn[] = {"<=0", "<0", "==0", "!=0"}; desc << " assume(" << st.c0; for (int j = 0; j < NV; j++) if (st.c[j]) desc << "+" << st.c[j] << "v" << j; desc << kn[st.op] << ");"; }
        else if (st.kind == 6) { st.kind = 4; bb[i]->havoc(F.v[st.x]); desc << " havoc v" << st.x << ";"; }
        else if (f > 0) { st.kind = 6; st.callee = r.in(0, f - 1);
          std::vector<z_var> args; args.push_back(F.v[st.y]); if (fs[st.callee].arity == 2) args.push_back(F.v[st.z]);
          bb[i]->callsite(fs[st.callee].name, {F.v[st.x]}, args);
          desc << " v" << st.x << ":=" << fs[st.callee].name << "(v" << st.y; if (fs[st.callee].arity == 2) desc << ",v" << st.z; desc << ");"; }
        else continue;
        F.blocks[i].stmts.push_back(st);
      }
      desc << " ->"; for (int t : F.blocks[i].succs) desc << " " << F.bn[t]; desc << "\n";
    }
  }
  std::vector<z_cfg_ref_t> cfgs; for (auto &F : fs) cfgs.push_back(*F.cfg);
  callgraph_t cg(cfgs);
  int bad = 0;
  violation viol;
  {
    typedef top_down_inter_analyzer<callgraph_t, Dom> td_t; typedef top_down_inter_analyzer_parameters<callgraph_t> td_params_t;
    td_params_t params; params.run_checker = false; Dom init;
    td_t A(cg, init, params); A.run(init);
    for (int t = 0; t < 150 && !viol.bad; t++) { cstate s; for (int i = 0; i < NV; i++) s[i] = r.in(-3, 3); long rv; int budget = 400; run_fun(fs, NF - 1, s, rv, A, r, viol, budget, "top-down"); }
  }
  if (!viol.bad) {
    typedef bottom_up_inter_analyzer<callgraph_t, Dom, Dom> bu_t;
    Dom td_top, bu_top; crab::analyzer::inter_analyzer_parameters<callgraph_t> params;
    bu_t A(cg, td_top, bu_top, params); A.run(td_top);
    for (int t = 0; t < 150 && !viol.bad; t++) { cstate s; for (int i = 0; i < NV; i++) s[i] = r.in(-3, 3); long rv; int budget = 400; run_fun(fs, NF - 1, s, rv, A, r, viol, budget, "bottom-up"); }
  }
  if (viol.bad) { bad = 1; crab::outs() << "UNSOUND [" << dn << " seed " << seed << "] " << viol.msg << "\n" << desc.str(); }
  for (auto &F : fs) delete F.cfg;
  return bad;
}
template <class Dom> int drive(const char *name, unsigned long long first, int count) {
  int bad = 0; for (int i = 0; i < count; i++) { bad += run_one<Dom>(name, first + i); if (bad >= 3) break; }
  crab::outs() << name << ": " << count << " seeds, " << bad << " failing\n"; return bad;
}
int main(int argc, char **argv) {
  crab::CrabEnableWarningMsg(false);
  std::string dn = argc > 1 ? argv[1] : "interval"; unsigned long long first = argc > 2 ? strtoull(argv[2], 0, 10) : 1; int count = argc > 3 ? atoi(argv[3]) : 100;
#define D(n, T) if (dn == n) return drive<T>(n, first, count) ? 1 : 0;
  D("interval", z_interval_domain_t) D("sdbm", z_sdbm_domain_t) D("dbm", z_dbm_domain_t) D("soct", z_soct_domain_t)
  crab::outs() << "unknown domain\n"; return 2;
}
