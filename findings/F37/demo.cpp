// F37 (C18/C17): build with  g++ -w -std=c++11 -O1 -I/repo/include -I/repo/_build/include -I/repo/tests demo.cpp /repo/_build/lib/libCrab.a -lgmp
// (written by the round-2 seeding sub-agent for C17) before the fix DCE removes `k = 5` (k is a function output) when another sink block exists.
// NOT part of the seeded change: behaviour of the UNCHANGED tree that already
// violates C17 (found while exploring).
//
// dead_code_elimination deletes the assignment to a function OUTPUT when the
// CFG contains a second sink block (a block without successors that does not
// reach the exit).
//
// Cause: killgen_fixpoint_iterator::run_bwd_fixpo seeds the initial state of
// the backward analysis (liveness_analysis_operations::entry() = "function
// outputs are live") at order[0] of weak_rev_topo_sort(cfg) instead of at
// cfg.exit().  With another sink, order[0] is that sink, so at the end of the
// real exit block nothing is live.
//
//   k:int32 declare main(c:int32)
//   entry:    goto ret, dead_end;
//   ret:      k = 5; assume(c <= 0);        <- exit block, k is an output
//   dead_end: assume(c >= 1);               <- does not reach the exit
//
// build: g++ -std=c++11 -O1 -Iinclude -I_build/include -Itests \
//          _seed/extra_unchanged_tree_dce_sink.cpp _build/lib/libCrab.a -lgmp
// exit status 1 = "k = 5" was removed (observed on the unchanged tree).

#include "crab_lang.hpp"
#include <crab/transforms/dce.hpp>

using namespace crab::cfg_impl;

int main() {
  variable_factory_t vfac;
  z_var k(vfac["k"], crab::INT_TYPE, 32);
  z_var c(vfac["c"], crab::INT_TYPE, 32);
  typename z_cfg_t::fdecl_t fdecl("main", {c}, {k});
  z_cfg_t *cfg = new z_cfg_t("entry", "ret", fdecl);
  z_basic_block_t &entry = cfg->insert("entry");
  z_basic_block_t &dead_end = cfg->insert("dead_end");
  z_basic_block_t &ret = cfg->insert("ret");
  entry >> ret;
  entry >> dead_end;
  ret.assign(k, 5);
  ret.assume(c <= 0);
  dead_end.assume(c >= 1);

  crab::outs() << "Before DCE\n" << *cfg << "\n";
  z_cfg_ref_t ref(*cfg);
  crab::transforms::dead_code_elimination<z_cfg_ref_t> dce;
  dce.run(ref);
  crab::outs() << "After DCE\n" << *cfg << "\n";

  bool kept = false;
  for (auto &s : ret)
    kept |= s.is_assign();
  delete cfg;
  if (!kept) {
    crab::outs() << "FAIL: the definition of output k in the exit block was "
                    "removed\n";
    return 1;
  }
  crab::outs() << "PASS\n";
  return 0;
}
