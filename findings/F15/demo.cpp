// F15 (C11, C02): build with  g++ -std=c++11 -O1 -I/repo/include -I/repo/_build/include -I/repo/tests demo.cpp /repo/_build/lib/libCrab.a -lgmp
// before the fix: error-mode pre(entry) = _|_ when the asserting block cannot reach the exit (and demo_checker.cpp: the forward+backward
// analyzer reports assert(x >= 1) SAFE although x = 0 violates it); after the fix: pre(entry) = top, the assertion is a warning.
// candidate (C11): an assertion in a block that cannot reach the exit block.
//   entry: goto A or exit
//   A:     assert(x >= 1); goto spin
//   spin:  goto spin            (never reaches exit)
//   exit:
// From {x = 0} the execution entry -> A violates the assertion, so the error-mode necessary precondition at entry must contain x = 0.
#include "crab_lang.hpp"
#include <crab/analysis/bwd_analyzer.hpp>
#include <crab/analysis/fwd_analyzer.hpp>
#include <crab/analysis/fwd_bwd_params.hpp>
#include <crab/domains/intervals.hpp>
#include <iostream>
using namespace crab; using namespace crab::cfg_impl; using namespace ikos;
using dom_t = ikos::interval_domain<z_number, varname_t>;
int main() {
  crab::CrabEnableWarningMsg(false);
  variable_factory_t vfac;
  z_var x(vfac["x"], crab::INT_TYPE, 32);
  int bad = 0;
  for (int variant = 0; variant < 2; variant++) {
    z_cfg_t cfg("entry", "exit");
    z_basic_block_t &entry = cfg.insert("entry"); z_basic_block_t &A = cfg.insert("A");
    z_basic_block_t &spin = cfg.insert("spin"); z_basic_block_t &exit = cfg.insert("exit");
    entry >> A; entry >> exit; A >> spin; spin >> spin;
    if (variant == 1) spin >> exit;     // control: now A reaches the exit
    A.assertion(x >= 1);
    using bwd_t = crab::analyzer::necessary_preconditions_fixpoint_iterator<z_cfg_ref_t, dom_t>;
    using fwd_t = crab::analyzer::intra_fwd_analyzer<z_cfg_ref_t, dom_t>;
    crab::fixpoint_parameters fp; dom_t fac;
    fwd_t F(cfg, fac, nullptr, fp); F.run(fac.make_top());
    bwd_t B(cfg, fac, false /*error states*/, fp);
    B.run_backward(fac.make_bottom(), F.get_pre_invariants());
    dom_t pre = B[cfg.entry()];
    dom_t t(pre); t += z_lin_cst_t(x == z_number(0));
    bool ok = !t.is_bottom();
    crab::outs() << (ok ? "ok  " : "FAIL") << (variant ? " [A reaches exit]      " : " [A cannot reach exit] ") << "error-mode pre(entry) = " << pre << "\n";
    if (!ok) bad++;
  }
  return bad ? 1 : 0;
}
