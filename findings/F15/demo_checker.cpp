#include "crab_lang.hpp"
#include <crab/analysis/bwd_analyzer.hpp>
#include <crab/checkers/assertion.hpp>
#include <crab/checkers/checker.hpp>
#include <crab/domains/intervals.hpp>
using namespace crab; using namespace crab::cfg_impl; using namespace ikos;
typedef interval_domain<z_number, varname_t> dom_t;
typedef crab::analyzer::intra_forward_backward_analyzer<z_cfg_ref_t, dom_t> analyzer_t;
int main() {
  crab::CrabEnableWarningMsg(false);
  variable_factory_t vfac;
  z_var x(vfac["x"], crab::INT_TYPE, 32);
  int bad = 0;
  for (int variant = 0; variant < 2; variant++) {
    z_cfg_t cfg("entry", "exit");
    z_basic_block_t &entry = cfg.insert("entry"); z_basic_block_t &A = cfg.insert("A");
    z_basic_block_t &spin = cfg.insert("spin"); z_basic_block_t &exit = cfg.insert("exit");
    entry >> A; entry >> exit; A >> spin; spin >> spin;
    if (variant == 1) spin >> exit;
    A.assertion(x >= 1);
    z_cfg_ref_t ref(cfg);
    dom_t top;
    analyzer_t a(ref, top);
    analyzer_t::assumption_map_t assumptions;
    crab::fixpoint_parameters fp; crab::analyzer::fwd_bwd_parameters params; params.enable_backward() = true;
    a.run(cfg.entry(), top, assumptions, nullptr, fp, params);
    typedef crab::checker::intra_checker<analyzer_t> checker_t;
    typedef crab::checker::assert_property_checker<analyzer_t> prop_t;
    checker_t::prop_checker_ptr prop(new prop_t(0));
    checker_t checker(a, {prop});
    checker.run();
    auto db = checker.get_all_checks();
    crab::outs() << (variant ? "[A reaches exit]      " : "[A cannot reach exit] ") << "safe=" << db.get_total_safe() << " warning=" << db.get_total_warning() << " error=" << db.get_total_error() << "\n";
    if (db.get_total_safe() > 0) { crab::outs() << "  FAIL: assert(x >= 1) reported SAFE but x = 0 violates it\n"; bad++; }
  }
  return bad ? 1 : 0;
}
