// F32 (C03): powerset_domain::operator-= / forget call set_to_top() INSIDE the loop over the disjuncts and keep iterating with the size
// cached before the loop: the vector now has one element and m_disjuncts[i] (i >= 1) is out of bounds.
// build: g++ -std=c++11 -O0 -g -fsanitize=address -D_GLIBCXX_SANITIZE_VECTOR -I/repo/include -I/repo/_build/include -I/repo/tests demo.cpp /repo/_build/lib/libCrab.a -lgmp
#include "crab_lang.hpp"
#include "crab_dom.hpp"
#include <crab/domains/powerset_domain.hpp>
using namespace crab; using namespace crab::cfg_impl; using namespace crab::domain_impl; using namespace ikos;
typedef crab::domains::powerset_domain<z_interval_domain_t> pw_t;
int main() {
  crab::CrabEnableWarningMsg(false);
  variable_factory_t vfac;
  z_var x(vfac["x"], crab::INT_TYPE, 32), y(vfac["y"], crab::INT_TYPE, 32);
  pw_t a; a.assign(x, z_number(1));
  pw_t b; b.assign(y, z_number(2));
  pw_t c; c.assign(y, z_number(3));
  pw_t j = (a | b) | c;              // {x=1} or {y=2} or {y=3}
  j -= x;                            // the FIRST disjunct becomes top
  crab::outs() << "after forgetting x: " << j << "  is_top=" << j.is_top() << "\n";
  return j.is_top() ? 0 : 1;
}
