// F2: z_interval::AShr divides with truncation instead of rounding towards
// minus infinity (C08): [-3,-3] >> 1 yields [-1,-1] but -3 >> 1 == -2.
#include <crab/domains/interval.hpp>
#include <crab/support/os.hpp>
using namespace ikos;
int main() {
  typedef interval<z_number> itv;
  int bad = 0;
  for (int v = -9; v <= 9; ++v) {
    for (int k = 0; k <= 3; ++k) {
      itv r = itv(z_number(v)).AShr(itv(z_number(k)));
      z_number expect = z_number(v) >> z_number(k);      // floor shift
      if (!r[expect]) {
        crab::outs() << "[" << v << "," << v << "] >>a " << k << " = " << r << " does not contain " << expect << "\n";
        bad = 1;
      }
    }
  }
  return bad;
}
