#include "crab_lang.hpp"
#include "crab_dom.hpp"
using namespace crab::cfg_impl;
using namespace crab::domain_impl;
using namespace ikos;
template<class Dom> int run(const char *name) {
  variable_factory_t vfac;
  z_var a(vfac["a"], crab::INT_TYPE, 32), b(vfac["b"], crab::INT_TYPE, 32);
  z_var p(vfac["p"], crab::BOOL_TYPE, 1), q(vfac["q"], crab::BOOL_TYPE, 1);
  Dom d; d += (a >= z_number(-3)); d += (a <= z_number(1));
  Dom d1(d), d2(d);
  d1.assign_bool_var(p, q, false);     // d1: p == q
  d2.assign(b, z_number(-3));          // d2: p, q unconstrained
  bool leq = d2 <= d1;
  Dom e(d1); e.assume_bool(p, false); e.assume_bool(q, true);   // p = 1, q = 0
  Dom f(d2); f.assume_bool(p, false); f.assume_bool(q, true);
  crab::outs() << name << ": d1 = " << d1 << "  d2 = " << d2 << "\n   d2 <= d1: " << leq << "   (p=1,q=0) in d1: " << !e.is_bottom() << "  in d2: " << !f.is_bottom() << "\n";
  return leq && e.is_bottom() && !f.is_bottom();
}
int main() { int bad = run<z_bool_num_domain_t>("boolnum") + run<z_aa_bool_int_t>("aabool") + run<z_as_bool_num_t>("asbool") + run<z_bool_interval_domain_t>("boolint"); crab::outs() << (bad ? "UNSOUND\n" : "ok\n"); return bad; }
