// F3: separate_domain::join(k,v) stores a top binding (C19/C04).
// interval_domain::weak_assign(x, e) = _env.join(x, eval(e)).
#include <crab/domains/intervals.hpp>
#include <crab/types/varname_factory.hpp>
namespace crab {
template <> class variable_name_traits<std::string> {
public:
  static std::string to_string(std::string varname) { return varname; }
};
}
using namespace crab;
using namespace ikos;
int main() {
  var_factory_impl::str_variable_factory vfac;
  typedef var_factory_impl::str_variable_factory::varname_t varname_t;
  typedef interval_domain<z_number, varname_t> dom_t;
  typedef variable<z_number, varname_t> var_t;
  typedef interval<z_number> itv_t;
  typedef bound<z_number> bnd_t;
  var_t x(vfac["x"], crab::INT_TYPE, 32), y(vfac["y"], crab::INT_TYPE, 32);
  dom_t d;                                   // top
  d.set(x, itv_t(bnd_t(0), bnd_t::plus_infinity()));     // x in [0,+oo]
  d.set(y, itv_t(bnd_t::minus_infinity(), bnd_t(0)));    // y in [-oo,0]
  d.weak_assign(x, ikos::linear_expression<z_number, varname_t>(y));  // x := x | y = [-oo,+oo]
  d -= y;
  // d now describes every state: it must be top and top <= d must hold
  dom_t top;
  int bad = 0;
  if (!d.is_top()) { crab::outs() << "is_top() false on " << d << "\n"; bad = 1; }
  if (!(top <= d)) { crab::outs() << "top <= d is false for d=" << d << "\n"; bad = 1; }
  return bad;
}
