// F1: wrapint::ashr stores a value >= 2^width for widths < 64 (C13):
// the sign-fill mask all_ones << (width - k) spills above bit `width` and goes
// to the non-reducing constructor.
#include <crab/numbers/wrapint.hpp>
#include <crab/support/os.hpp>
using namespace crab;
int main() {
  int bad = 0;
  for (unsigned w : {8u, 16u, 32u, 13u}) {
    wrapint x((uint64_t)1 << (w - 1), w);           // 100...0  (= -2^(w-1))
    wrapint r = x.ashr(wrapint(1, w));               // must be 1100...0
    wrapint expect(((uint64_t)1 << (w - 1)) | ((uint64_t)1 << (w - 2)), w);
    if (!(r == expect) || r.get_uint64_t() >= ((uint64_t)1 << w)) {
      crab::outs() << "width " << w << ": ashr(msb,1) stores " << r.get_uint64_t() << ", expected "
                   << expect.get_uint64_t() << "\n";
      bad = 1;
    }
  }
  return bad;
}
