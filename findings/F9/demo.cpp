// F9: intra_forward_backward_analyzer::run() never resets the set of
// assertions proved by the backward analysis (nor the stored invariants):
// a second run() on the same analyzer object with weaker initial states keeps
// the assertions proved by the first run, and the checker reports SAFE for an
// assertion that can be violated (C02).
#include "lang.hpp"
#include <crab/analysis/bwd_analyzer.hpp>
#include <crab/checkers/assertion.hpp>
#include <crab/checkers/checker.hpp>
#include <crab/domains/intervals.hpp>
using namespace crab;
using namespace crab::cfg_impl;
using namespace ikos;
typedef interval_domain<z_number, varname_t> dom_t;
typedef crab::analyzer::intra_forward_backward_analyzer<z_cfg_ref_t, dom_t> analyzer_t;

static unsigned run_and_check(analyzer_t &a, z_cfg_t &cfg, dom_t init, unsigned &warnings) {
  analyzer_t::assumption_map_t assumptions;
  crab::fixpoint_parameters fp;
  crab::analyzer::fwd_bwd_parameters params;
  params.enable_backward() = true;
  a.run(cfg.entry(), init, assumptions, nullptr, fp, params);
  typedef crab::checker::intra_checker<analyzer_t> checker_t;
  typedef crab::checker::assert_property_checker<analyzer_t> prop_t;
  checker_t::prop_checker_ptr prop(new prop_t(0));
  checker_t checker(a, {prop});
  checker.run();
  auto db = checker.get_all_checks();
  warnings = db.get_total_warning();
  return db.get_total_safe();
}

int main() {
  variable_factory_t vfac;
  z_var x(vfac["x"], crab::INT_TYPE, 32), y(vfac["y"], crab::INT_TYPE, 32);
  z_cfg_t cfg("entry", "exit");
  z_basic_block_t &entry = cfg.insert("entry");
  z_basic_block_t &b1 = cfg.insert("b1");
  z_basic_block_t &b2 = cfg.insert("b2");
  z_basic_block_t &b3 = cfg.insert("b3");
  z_basic_block_t &j = cfg.insert("j");
  z_basic_block_t &exit = cfg.insert("exit");
  entry >> b1; entry >> b2; entry >> b3; b1 >> j; b2 >> j; b3 >> j; j >> exit;
  b1.assume(x >= 1);
  b2.assume(x <= -1);
  b3.assume(y >= 5);
  b3.assign(x, 0);
  j.assertion(x != 0);       // violated exactly when b3 is feasible
  z_cfg_ref_t ref(cfg);

  dom_t top;
  analyzer_t a(ref, top);
  dom_t init1; init1 += (y == 0);          // b3 infeasible: the assertion holds
  unsigned w1 = 0, w2 = 0;
  unsigned safe1 = run_and_check(a, cfg, init1, w1);
  dom_t init2;                              // y unconstrained: b3 feasible, x == 0 reaches the assertion
  unsigned safe2 = run_and_check(a, cfg, init2, w2);
  crab::outs() << "run 1 (y == 0): safe=" << safe1 << " warning=" << w1 << "\n";
  crab::outs() << "run 2 (top)   : safe=" << safe2 << " warning=" << w2 << "\n";
  // a fresh analyzer for the second initial state is the reference
  analyzer_t fresh(ref, top);
  unsigned wf = 0;
  unsigned safef = run_and_check(fresh, cfg, init2, wf);
  crab::outs() << "fresh (top)   : safe=" << safef << " warning=" << wf << "\n";
  if (safe2 != safef) {
    crab::outs() << "re-used analyzer reports a violated assertion as safe\n";
    return 1;
  }
  return 0;
}
