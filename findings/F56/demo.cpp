// F56 (C08, C03): g++ -w -std=c++11 -O1 -I/repo/include -I/repo/_build/include -I/repo/tests demo.cpp /repo/lib/interval.cpp /repo/_build/lib/libCrab.a -lgmp
// bound<Number>::operator/ answered  finite / infinite = infinite  (with the sign of the dividend), so the corner
// quotients of an interval division by an unbounded divisor were wrong: [4,4] / [1,+oo] = [4,+oo] although 4/2 = 2, 4/5 = 0.
// Found by the random differential aid findings/aids/domfuzz.cpp (seed 148 of the interval domain):
//   c := 4; assume(b >= 1); c := c / b   gave c in [4,+oo]; concretely b = 2, c = 2.
#include "crab_lang.hpp"
#include "crab_dom.hpp"
using namespace crab::cfg_impl; using namespace crab::domain_impl; using namespace ikos;
int main() {
  typedef interval<z_number> I; typedef bound<z_number> B;
  int bad = 0;
  z_number four(4), one(1), m4(-4), m1(-1), two(2), five(5);
  I p4(four, four), n4(m4, m4), pos(B(one), B::plus_infinity()), neg(B::minus_infinity(), B(m1));
  struct { I a, b; long x, y; } t[] = {{p4, pos, 4, 5}, {p4, pos, 4, 2}, {p4, neg, 4, -3}, {n4, pos, -4, 3}, {n4, neg, -4, -5}};
  for (auto &c : t) { I q = c.a / c.b; long r = c.x / c.y; z_number zr(r);
    crab::outs() << c.a << " / " << c.b << " = " << q << "   (" << c.x << "/" << c.y << " = " << r << ")\n";
    if (!q[zr]) { crab::outs() << "  UNSOUND\n"; bad++; } }
  variable_factory_t vfac; z_var b(vfac["b"], crab::INT_TYPE, 32), cc(vfac["c"], crab::INT_TYPE, 32);
  z_interval_domain_t d; d.assign(cc, z_number(4)); d += (b >= z_number(1)); d.apply(crab::domains::OP_SDIV, cc, cc, b);
  crab::outs() << "c := 4; assume(b >= 1); c := c / b : " << d << "\n";
  if (!(d[cc][two])) { crab::outs() << "  UNSOUND: b = 2 gives c = 2\n"; bad++; }
  return bad ? 1 : 0;
}
