// C15 violation (DEFAULT parameters): region_domain::intrinsic.  The region
// intrinsics that define a Boolean output
//     b := is_dereferenceable(rgn, ref, sz)   (region.is_dereferenceable)
//     b := is_unfreed_or_null(rgn, ref)       (region.deallocation)
//     b := does_not_have_tag(rgn, ref, TAG)   (region.tag_analysis)
// are swallowed by the region domain when the corresponding parameter is off:
// the statement is neither interpreted nor forwarded to the base domain and
// the output variable is NOT forgotten, so it keeps the value it had before
// the statement.  With the default parameters (is_dereferenceable=false,
// deallocation=false) a definite stale `false` survives the redefinition of b,
// assume(b) makes the state bottom, and the following load "cannot happen".
#include "../tests/common.hpp"
using namespace crab::cfg;
using namespace crab::cfg_impl;
using namespace crab::domain_impl;
using namespace ikos;
using namespace crab::domains;
typedef z_rgn_bool_int_t Dom;

static int run(const char *intrinsic_name, bool with_size) {
  variable_factory_t vfac;
  crab::tag_manager as_man;
  z_var_or_cst_t size4(z_number(4), crab::variable_type(crab::INT_TYPE, 32));
  z_var_or_cst_t seven(z_number(7), crab::variable_type(crab::INT_TYPE, 32));
  z_var R(vfac["R"], crab::REG_INT_TYPE, 32);
  z_var q(vfac["q"], crab::REF_TYPE, 32);
  z_var b(vfac["b"], crab::BOOL_TYPE, 1);
  z_var x(vfac["x"], crab::INT_TYPE, 32);
  //  q := make_ref(R, 4); *q := 7;
  //  b := false;
  //  b := <intrinsic>(R, q [,4]);      concretely b == true
  //  assume(b);
  //  x := *q;                          concretely x == 7
  Dom inv;
  inv.region_init(R);
  inv.ref_make(q, R, size4, as_man.mk_tag());
  inv.ref_store(q, R, seven);
  inv.assign_bool_cst(b, z_lin_cst_t::get_false());
  if (with_size)
    inv.intrinsic(intrinsic_name,
                  {z_var_or_cst_t(R), z_var_or_cst_t(q), size4}, {b});
  else
    inv.intrinsic(intrinsic_name, {z_var_or_cst_t(R), z_var_or_cst_t(q)}, {b});
  crab::outs() << "after b := " << intrinsic_name << "(...): " << inv << "\n";
  inv.assume_bool(b, false);
  inv.ref_load(q, R, x);
  if (inv.is_bottom() ||
      !(ikos::interval<z_number>(z_number(7)) <= inv[x])) {
    crab::outs() << "  VIOLATION: state after assume(b); x := *q is " << inv
                 << " but concretely b == true and x == 7\n";
    return 1;
  }
  return 0;
}

int main() {
  region_domain_params p; // defaults
  crab_domain_params_man::get().update_params(p);
  int bad = 0;
  bad |= run("is_dereferenceable", true);
  bad |= run("is_unfreed_or_null", false);
  return bad;
}
