// F12 (C13): wrapped_interval::UDiv cut its operands at the SIGNED wrap-around point (signed_split) although the unsigned
// division kernel is monotone only on pieces that do not cross the UNSIGNED wrap-around point 1..1|0..0.
// [2,0]_4 (= {2..15,0}) udiv [8,9]_4 gave [0,0]_4, which misses 8/8 = 1.  Exhaustive over all pairs of 4-bit intervals:
// 138734 unsound (interval, interval, value) triples before the fix, 0 after.
// build: g++ -std=c++11 -O2 -I/repo/include -I/repo/_build/include demo.cpp /repo/lib/wrapped_interval.cpp /repo/_build/lib/libCrab.a -lgmp
#include <crab/domains/wrapped_interval.hpp>
#include <crab/numbers/wrapint.hpp>
#include <crab/support/os.hpp>
using namespace crab; using namespace crab::domains; using namespace ikos;
typedef wrapped_interval<z_number> wi_t;
int main() {
  unsigned W = 4, M = 1u << W; long bad = 0; int shown = 0;
  for (unsigned s1 = 0; s1 < M; s1++) for (unsigned n1 = 0; n1 < M - 1; n1++)
  for (unsigned s2 = 0; s2 < M; s2++) for (unsigned n2 = 0; n2 < M - 1; n2++) {
    wi_t a(wrapint(s1, W), wrapint((s1 + n1) % M, W)), b(wrapint(s2, W), wrapint((s2 + n2) % M, W));
    wi_t r = a.UDiv(b);
    if (r.is_top()) continue;
    for (unsigned i = 0; i <= n1; i++) for (unsigned j = 0; j <= n2; j++) {
      unsigned x = (s1 + i) % M, y = (s2 + j) % M;
      if (!y) continue;
      unsigned z = x / y;
      if (r.is_bottom() || !r.at(wrapint(z, W))) { bad++; if (shown < 3) { shown++; crab::outs() << a << " udiv " << b << " = " << r << " misses " << x << "/" << y << "=" << z << "\n"; } }
    }
  }
  crab::outs() << "violations: " << bad << "\n";
  return bad ? 1 : 0;
}
