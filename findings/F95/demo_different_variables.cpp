#include "crab_lang.hpp"
#include "crab_dom.hpp"
#include <crab/domains/value_partitioning_domain.hpp>
using namespace crab::cfg_impl; using namespace crab::domain_impl; using namespace ikos; using namespace crab::domains;
int main() {
  typedef value_partitioning_domain<z_interval_domain_t> vp_t;
  variable_factory_t vfac; z_var x(vfac["x"], crab::INT_TYPE, 32);
  vp_t a; a += (x >= z_number(0)); a += (x <= z_number(6));           // A: x in [0,6], not partitioned
  vp_t b1, b2; b1.intrinsic("value_partition_start", {x}, {}); b2.intrinsic("value_partition_start", {x}, {});
  b1 += (x >= z_number(0)); b1 += (x <= z_number(1)); b2 += (x >= z_number(5)); b2 += (x <= z_number(6));
  vp_t b = b1 | b2;
  bool leq = a <= b; vp_t c(a); c += (x == z_number(3)); vp_t d(b); d += (x == z_number(3));
  crab::outs() << "A = " << a << "  B = " << b << "\nA <= B: " << leq << "; x=3 in A: " << !c.is_bottom() << "; x=3 in B: " << !d.is_bottom() << "\n";
  bool bad = leq && !c.is_bottom() && d.is_bottom(); crab::outs() << (bad ? "UNSOUND inclusion\n" : "OK\n"); return bad;
}
