// F52 (C01): g++ -w -std=c++11 -O1 -I/repo/include -I/repo/_build/include -I/repo/tests demo.cpp /repo/_build/lib/libCrab.a -lgmp
// scenarios 1-2 written by the round-3 seeding sub-agent for C01 (behaviour of the unchanged tree); scenario 3 added while repairing.
// Behaviour of the UNCHANGED tree that already violates C01 (not the seeded
// change): when the block the analysis starts at is the head of a loop (it has
// a back edge into it), the initial value is lost.
//
//   H  : (empty)          goto B or ret         <- CFG entry, also loop head
//   B  : x := x + 1       goto H
//   ret: (empty)
//
// run(init = {x = 0}).  The execution that starts in H with x = 0 obviously
// arrives at H with x = 0 and can leave to ret with x = 0, but the analyzer
// reports  pre(H) = pre(ret) = {x -> [2, +oo]}.
//
// Cause: interleaved_fixpoint_iterator.hpp, wto_iterator::visit(wto_cycle_t&).
// When the start block is in the cycle ("entry_in_this_cycle") the head's
// first value is the initial value, but it is not the post of any
// predecessor.  Every later value is  join(posts of predecessors)  only, so
// once the increasing sequence stabilises  set_pre(head, new_pre)  stores a
// value without the initial states, and the descending phase then starts
// from that value and shrinks everything further.  The same happens with
// run(entry, init, assumptions) when "entry" is any loop head (second
// scenario below), and if the start block is a non-head member of a cycle its
// pre-invariant stays "init" forever.
//
// Exit status 1 when the unsoundness is observed.
#include "crab_dom.hpp"
#include "crab_lang.hpp"
#include <crab/analysis/fwd_analyzer.hpp>

using namespace crab::cfg;
using namespace crab::cfg_impl;
using namespace crab::domain_impl;
using namespace crab::analyzer;

using dom_t = z_interval_domain_t;
using analyzer_t = intra_fwd_analyzer<z_cfg_ref_t, dom_t>;

static bool contains(dom_t inv, const z_var &x, long v) {
  inv += z_lin_cst_t(z_lin_exp_t(x) == z_lin_exp_t(ikos::z_number(v)));
  return !inv.is_bottom();
}

int main() {
  int bad = 0;
  variable_factory_t vfac;
  z_var x(vfac["x"], crab::INT_TYPE, 32);
  crab::fixpoint_parameters params; // defaults

  { // scenario 1: the CFG entry block is a loop head, plain run(init)
    z_cfg_t cfg("H", "ret");
    z_basic_block_t &H = cfg.insert("H");
    z_basic_block_t &B = cfg.insert("B");
    z_basic_block_t &ret = cfg.insert("ret");
    H >> B;
    B >> H;
    H >> ret;
    B.add(x, x, 1);
    dom_t init;
    init.assign(x, 0);
    analyzer_t a(cfg, dom_t(), nullptr, params);
    a.run(init);
    for (auto l : {"H", "B", "ret"}) {
      dom_t pre = a.get_pre(l);
      crab::outs() << "scenario 1: pre(" << l << ") = " << pre << "\n";
      // x = 0 arrives at H, B and ret (0 iterations of the loop)
      if (!contains(pre, x, 0)) {
        crab::outs() << "  UNSOUND: the state x = 0 arrives at " << l << "\n";
        bad++;
      }
    }
  }
  { // scenario 2: alternative entry block that is a loop head
    z_cfg_t cfg("entry", "ret");
    z_basic_block_t &entry = cfg.insert("entry");
    z_basic_block_t &H = cfg.insert("H");
    z_basic_block_t &B = cfg.insert("B");
    z_basic_block_t &ret = cfg.insert("ret");
    entry >> H;
    H >> B;
    B >> H;
    H >> ret;
    entry.assign(x, 100);
    B.add(x, x, 1);
    dom_t init;
    init.assign(x, 0);
    analyzer_t a(cfg, dom_t(), nullptr, params);
    analyzer_t::assumption_map_t assumptions;
    a.run("H", init, assumptions);
    for (auto l : {"H", "B", "ret"}) {
      dom_t pre = a.get_pre(l);
      crab::outs() << "scenario 2: pre(" << l << ") = " << pre << "\n";
      if (!contains(pre, x, 0)) {
        crab::outs() << "  UNSOUND: the state x = 0 arrives at " << l << "\n";
        bad++;
      }
    }
  }
  { // scenario 3: the analysis starts at a block INSIDE a loop that is not its head:
    //   H -> E -> T -> H,  H -> ret;   E: x := x + 1;  start at E with x = 0.
    // E is reached again through T -> H -> E with x = 1, 2, ...; H and ret see x >= 1.
    z_cfg_t cfg("entry", "ret");
    z_basic_block_t &entry = cfg.insert("entry");
    z_basic_block_t &H = cfg.insert("H");
    z_basic_block_t &E = cfg.insert("E");
    z_basic_block_t &T = cfg.insert("T");
    z_basic_block_t &ret = cfg.insert("ret");
    entry >> H; H >> E; E >> T; T >> H; H >> ret;
    entry.assign(x, 100);
    E.add(x, x, 1);
    dom_t init;
    init.assign(x, 0);
    analyzer_t a(cfg, dom_t(), nullptr, params);
    analyzer_t::assumption_map_t assumptions;
    a.run("E", init, assumptions);
    struct { const char *l; long v; } reach[] = {{"E", 0}, {"E", 3}, {"T", 1}, {"H", 2}, {"ret", 1}};
    for (auto &r : reach) {
      dom_t pre = a.get_pre(r.l);
      crab::outs() << "scenario 3: pre(" << r.l << ") = " << pre << "\n";
      if (!contains(pre, x, r.v)) {
        crab::outs() << "  UNSOUND: the state x = " << r.v << " arrives at " << r.l << "\n";
        bad++;
      }
    }
  }
  return bad ? 1 : 0;
}
