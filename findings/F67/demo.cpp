// Behaviour of the UNCHANGED tree that already violates property C20
// ("floor right shifts ... all numbers (incl. ... beyond 64 bits) x all
// operations").
//
// z_number::operator<< and operator>> (lib/bignums.cpp) pass the shift
// amount through mpz_get_ui(), which silently keeps only the least
// significant 64 bits of the ABSOLUTE value of the amount (there is a
// "TODO: check for potential overflow" in the source).  Consequently
//   x >> (2^64 + 1)   is computed as  x >> 1   (should be 0, or -1 for x<0)
//   x >> (2^64)       is computed as  x >> 0   (should be 0, or -1 for x<0)
//   x >> -1           is computed as  x >> 1
//   x << -1           is computed as  x << 1
// None of these raises an error.
//
// Exit status 1 when the violation is observed, 0 otherwise.

#include <crab/numbers/bignums.hpp>
#include <cstdio>

using ikos::z_number;

int main() {
  int bad = 0;
  z_number two64("18446744073709551616");      // 2^64
  z_number two64p1("18446744073709551617");    // 2^64 + 1

  // floor(1000 / 2^(2^64+1)) = 0 and floor(-1000 / 2^(2^64+1)) = -1
  z_number a = z_number(1000) >> two64p1;
  z_number b = z_number(-1000) >> two64p1;
  z_number c = z_number(1000) >> two64;
  std::printf("1000 >> (2^64+1) = %s (expected 0)\n", a.get_str().c_str());
  std::printf("-1000 >> (2^64+1) = %s (expected -1)\n", b.get_str().c_str());
  std::printf("1000 >> 2^64 = %s (expected 0)\n", c.get_str().c_str());
  if (!(a == z_number(0)))
    ++bad;
  if (!(b == z_number(-1)))
    ++bad;
  if (!(c == z_number(0)))
    ++bad;

  // A negative amount is neither rejected nor treated as the inverse
  // shift: the sign is dropped.
  z_number d = z_number(1000) >> z_number(-1);
  z_number e = z_number(1000) << z_number(-1);
  std::printf("1000 >> -1 = %s (2000 or an error would be meaningful; 500 is "
              "not)\n",
              d.get_str().c_str());
  std::printf("1000 << -1 = %s (500 or an error would be meaningful; 2000 is "
              "not)\n",
              e.get_str().c_str());
  if (d == z_number(500))
    ++bad;
  if (e == z_number(2000))
    ++bad;

  if (bad) {
    std::printf("VIOLATION observed in unchanged tree (%d checks)\n", bad);
    return 1;
  }
  std::printf("no violation observed\n");
  return 0;
}
