// F92 (C13, KNOWN): wrapped_interval_domain::operator+= hands every well-typed linear constraint to the generic linear
// interval solver, which computes the residuals (constant - sum of the other terms) in WRAPPED arithmetic and then refines
// the pivot by a signed comparison with the wrapped residual.  When a residual overflows the refinement is wrong under the
// mathematical reading of the constraint (the one wrapped_numerical_domain::may_overflow assumes) AND under the machine
// reading:  y = -128 (8 bits), assume(x + y <= 0)  gives  x = -128  although x = 0 satisfies it (0 + -128 = -128 <= 0).
// build: g++ -w -std=c++11 -O1 -DNDEBUG -I/repo/include -I/repo/_build/include -I/repo/tests demo.cpp <libCrab.a> -lgmp -o demo
#include "crab_lang.hpp"
#include "crab_dom.hpp"
using namespace crab::cfg_impl;
using namespace crab::domain_impl;
using namespace ikos;
int main() {
  variable_factory_t vfac;
  z_var x(vfac["x"], crab::INT_TYPE, 8), y(vfac["y"], crab::INT_TYPE, 8);
  z_wrapped_interval_domain_t d;
  d += (z_lin_exp_t(y) == z_number(-128));
  d += (z_lin_exp_t(x) + z_lin_exp_t(y) <= z_number(0));
  crab::outs() << "y == -128; assume(x + y <= 0): " << d << "\n";
  z_wrapped_interval_domain_t e(d);
  e += (z_lin_exp_t(x) == z_number(0));                  // the state x = 0, y = -128 satisfies both constraints
  bool lost = e.is_bottom();
  crab::outs() << (lost ? "UNSOUND: the state x = 0, y = -128 is excluded\n" : "ok: x = 0 is still possible\n");
  return lost ? 1 : 0;
}
