// F18 (C02): build with  g++ -std=c++11 -O1 -I/repo/include -I/repo/_build/include -I/repo/tests demo.cpp /repo/_build/lib/libCrab.a -lgmp
// before the fix: intervals and split-dbm keep x = 5, y = 7 across the load / conversion and both assertions are SAFE (exit 1); after: warnings (exit 0).
// candidate (C02): REGION_AND_REFERENCE_OPERATIONS_NOT_IMPLEMENTED leaves ref_load / ref_to_int empty although they DEFINE an integer
// variable that numerical domains track:   x := 5; x := load_from_ref(p, M); assert(x == 5)   (and y := 7; y := ref_to_int(p); assert(y == 7))
#include "crab_lang.hpp"
#include "crab_dom.hpp"
#include <crab/analysis/fwd_analyzer.hpp>
#include <crab/checkers/assertion.hpp>
#include <crab/checkers/checker.hpp>
using namespace crab; using namespace crab::cfg_impl; using namespace crab::domain_impl; using namespace ikos;
template <typename dom_t> int run(const char *name) {
  typedef crab::analyzer::intra_fwd_analyzer<z_cfg_ref_t, dom_t> analyzer_t;
  variable_factory_t vfac;
  z_var x(vfac["x"], crab::INT_TYPE, 32), y(vfac["y"], crab::INT_TYPE, 32), v(vfac["v"], crab::INT_TYPE, 32);
  z_var p(vfac["p"], crab::REF_TYPE);
  z_var M(vfac["M"], crab::REG_INT_TYPE, 32);
  crab::tag_manager as_man;
  z_var_or_cst_t size4(z_number(4), crab::variable_type(crab::INT_TYPE, 32));
  z_cfg_t cfg("entry", "exit");
  z_basic_block_t &entry = cfg.insert("entry"); z_basic_block_t &exit = cfg.insert("exit");
  entry >> exit;
  entry.region_init(M);
  entry.make_ref(p, M, size4, as_man.mk_tag());
  entry.havoc(v);
  entry.store_to_ref(p, M, v);
  entry.assign(x, 5);
  entry.load_from_ref(x, p, M);
  entry.assign(y, 7);
  entry.ref_to_int(M, p, y);
  exit.assertion(x == 5);
  exit.assertion(y == 7);
  z_cfg_ref_t ref(cfg);
  dom_t top;
  crab::fixpoint_parameters fp;
  analyzer_t an(ref, top, nullptr, fp);
  an.run(top);
  typedef crab::checker::intra_checker<analyzer_t> checker_t;
  typedef crab::checker::assert_property_checker<analyzer_t> prop_t;
  typename checker_t::prop_checker_ptr prop(new prop_t(0));
  checker_t checker(an, {prop});
  checker.run();
  auto db = checker.get_all_checks();
  crab::outs() << name << ": safe=" << db.get_total_safe() << " warning=" << db.get_total_warning() << "  exit invariant " << an.get_pre(cfg.exit()) << "\n";
  if (db.get_total_safe() > 0) { crab::outs() << "  FAIL: an assertion on a loaded / converted value is reported SAFE\n"; return 1; }
  return 0;
}
int main() {
  crab::CrabEnableWarningMsg(false);
  int bad = 0;
  bad += run<z_interval_domain_t>("intervals");
  bad += run<z_sdbm_domain_t>("split-dbm");
  bad += run<z_rgn_int_t>("region(intervals)");
  return bad ? 1 : 0;
}
