// F27 (C08/C04): dis_interval<N>::operator<= has no case for top (represented by an empty list): top <= [0,1] answers yes and
// [0,1] <= top answers no.   build: g++ -std=c++11 -O1 -I/repo/include -I/repo/_build/include demo.cpp /repo/lib/dis_interval.cpp /repo/_build/lib/libCrab.a -lgmp
#ifdef USE_DOMAIN_HEADER
#include <crab/domains/dis_intervals.hpp>
#else
#include <crab/domains/dis_interval.hpp>
#endif
#include <crab/support/os.hpp>
using namespace ikos;
template <typename D> int run(const char *name) {
  typedef interval<z_number> itv_t;
  D top = D::top(), fin(itv_t(z_number(0), z_number(1)));
  int bad = 0;
  bool a = top <= fin, b = fin <= top;
  crab::outs() << name << ": top <= [0,1] : " << a << "   [0,1] <= top : " << b << "\n";
  if (a) { crab::outs() << "   UNSOUND: top is not included in [0,1]\n"; bad++; }
  if (!b) { crab::outs() << "   WRONG: everything is included in top\n"; bad++; }
  return bad;
}
int main() {
  int bad = run<crab::domains::dis_interval<z_number>>("dis_interval (dis_intervals.hpp / lib)");
  return bad ? 1 : 0;
}
