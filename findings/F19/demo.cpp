// F19 (E1, fixed), F20 (E2, known), F21 (E3, known) - reproducers written by the seeding sub-agent for C09 (round 2), extended with E4.
// build: g++ -std=c++11 -O1 -I/repo/include -I/repo/_build/include -I/repo/tests demo.cpp /repo/_build/lib/libCrab.a -lgmp
// pinned tree: E1 precise=1 UNSOUND, E2 UNSOUND, E3 UNSOUND (both modes), E4 sound.  After fix F19: E1 sound; E2, E3 unchanged (known findings).
// Side experiments on the UNCHANGED tree (not part of the seed).
#include "crab_lang.hpp"
#include "crab_dom.hpp"
#include <crab/analysis/inter/top_down_inter_analyzer.hpp>
#include <crab/cg/cg_bgl.hpp>
#include <map>
#include <string>
#include <vector>

using namespace crab::cfg;
using namespace crab::cfg_impl;
using namespace crab::domain_impl;
using namespace crab::cg_impl;
using callgraph_t = z_cg_t;
using inter_params_t = crab::analyzer::inter_analyzer_parameters<callgraph_t>;
using state_t = std::map<std::string, long>;
using Dom = z_interval_domain_t;
using analyzer_t = crab::analyzer::top_down_inter_analyzer<callgraph_t, Dom>;

static bool contains(Dom inv, const state_t &s, variable_factory_t &vfac) {
  for (auto &kv : s) {
    z_var v(vfac[kv.first], crab::INT_TYPE, 32);
    inv += (z_lin_exp_t(v) == z_number(kv.second));
  }
  return !inv.is_bottom();
}
static z_var V(variable_factory_t &vfac, const char *n) {
  return z_var(vfac[n], crab::INT_TYPE, 32);
}

// E1: recursive function whose exit is unreachable in the only context
static int e1(bool precise) {
  variable_factory_t vfac;
  z_var x_in = V(vfac, "x_in"), x = V(vfac, "x"), y = V(vfac, "y"),
        t = V(vfac, "t"), r = V(vfac, "r"), a = V(vfac, "a"),
        res = V(vfac, "res");
  function_decl<z_number, varname_t> fd("f", {x_in}, {r});
  z_cfg_t f("entry", "exit", fd);
  auto &fe = f.insert("entry");
  auto &fn = f.insert("neg");
  auto &fb = f.insert("base");
  auto &fr = f.insert("rec");
  auto &fx = f.insert("exit");
  fe >> fn; fe >> fb; fe >> fr; fn >> fx; fb >> fx; fr >> fx;
  fe.assign(x, x_in);
  fn.assume(x <= -1);
  fn.unreachable(); // abort()
  fn.assign(r, 0);
  fb.assume(x == 0);
  fb.assign(r, 0);
  fr.assume(x >= 1);
  fr.sub(y, x, 1);
  fr.callsite("f", {t}, {y});
  fr.assign(r, t);
  function_decl<z_number, varname_t> md("main", {}, {});
  z_cfg_t m("entry", "exit", md);
  auto &me = m.insert("entry");
  auto &mx = m.insert("exit");
  me >> mx;
  me.assign(a, -1);
  me.callsite("f", {res}, {a});
  std::vector<z_cfg_ref_t> cfgs({f, m});
  callgraph_t cg(cfgs);
  inter_params_t params;
  params.analyze_recursive_functions = precise;
  Dom init;
  analyzer_t an(cg, init, params);
  an.run(init);
  Dom inv = an.get_pre(f, "neg");
  crab::outs() << "E1 precise=" << precise << " pre(f::neg)=" << inv << "\n";
  // concretely f::neg is reached with x_in = x = -1
  bool ok = contains(inv, {{"x_in", -1}, {"x", -1}}, vfac);
  crab::outs() << "   " << (ok ? "sound" : "UNSOUND: {x_in=-1;x=-1} missing")
               << "\n";
  return ok ? 0 : 1;
}

// E2: call g(b_in, a_in) where the formals of g are (a_in, b_in)
static int e2() {
  variable_factory_t vfac;
  z_var a_in = V(vfac, "a_in"), b_in = V(vfac, "b_in"), a = V(vfac, "a"),
        b = V(vfac, "b"), r = V(vfac, "r"), res = V(vfac, "res");
  function_decl<z_number, varname_t> gd("g", {a_in, b_in}, {r});
  z_cfg_t g("entry", "exit", gd);
  auto &ge = g.insert("entry");
  auto &gx = g.insert("exit");
  ge >> gx;
  ge.assign(a, a_in);
  ge.assign(b, b_in);
  ge.sub(r, a, b);
  function_decl<z_number, varname_t> md("main", {}, {});
  z_cfg_t m("entry", "exit", md);
  auto &me = m.insert("entry");
  auto &mx = m.insert("exit");
  me >> mx;
  me.assign(a_in, 1);
  me.assign(b_in, 2);
  me.callsite("g", {res}, {b_in, a_in});
  std::vector<z_cfg_ref_t> cfgs({g, m});
  callgraph_t cg(cfgs);
  inter_params_t params;
  Dom init;
  analyzer_t an(cg, init, params);
  an.run(init);
  Dom inv = an.get_pre(g, "entry");
  Dom minv = an.get_pre(m, "exit");
  crab::outs() << "E2 pre(g::entry)=" << inv << " pre(main::exit)=" << minv
               << "\n";
  bool ok = contains(inv, {{"a_in", 2}, {"b_in", 1}}, vfac) &&
            contains(minv, {{"res", 1}}, vfac);
  crab::outs() << "   "
               << (ok ? "sound" : "UNSOUND: g entry {a_in=2;b_in=1} / res=1 missing")
               << "\n";
  return ok ? 0 : 1;
}

// E3: mutual recursion a <-> b, WTO head is a but main calls b first
static int e3(bool precise) {
  variable_factory_t vfac;
  z_var p_in = V(vfac, "p_in"), p = V(vfac, "p"), q = V(vfac, "q"),
        tb = V(vfac, "tb"), ra = V(vfac, "ra");
  z_var x_in = V(vfac, "x_in"), x = V(vfac, "x"), y = V(vfac, "y"),
        ta = V(vfac, "ta"), rb = V(vfac, "rb");
  z_var c = V(vfac, "c"), d = V(vfac, "d"), res1 = V(vfac, "res1"),
        res2 = V(vfac, "res2");
  function_decl<z_number, varname_t> ad("a", {p_in}, {ra});
  z_cfg_t fa("entry", "exit", ad);
  {
    auto &e = fa.insert("entry"); auto &bs = fa.insert("base");
    auto &rc = fa.insert("rec"); auto &ex = fa.insert("exit");
    e >> bs; e >> rc; bs >> ex; rc >> ex;
    e.assign(p, p_in);
    bs.assume(p <= 0); bs.assign(ra, 0);
    rc.assume(p >= 1); rc.sub(q, p, 1); rc.callsite("b", {tb}, {q});
    rc.assign(ra, tb);
  }
  function_decl<z_number, varname_t> bd("b", {x_in}, {rb});
  z_cfg_t fb("entry", "exit", bd);
  {
    auto &e = fb.insert("entry"); auto &bs = fb.insert("base");
    auto &rc = fb.insert("rec"); auto &ex = fb.insert("exit");
    e >> bs; e >> rc; bs >> ex; rc >> ex;
    e.assign(x, x_in);
    bs.assume(x <= 0); bs.assign(rb, 0);
    rc.assume(x >= 1); rc.sub(y, x, 1); rc.callsite("a", {ta}, {y});
    rc.assign(rb, ta);
  }
  function_decl<z_number, varname_t> md("main", {}, {});
  z_cfg_t m("entry", "exit", md);
  auto &me = m.insert("entry");
  auto &mx = m.insert("exit");
  me >> mx;
  me.assign(c, 5);
  me.callsite("b", {res1}, {c});
  me.assign(d, 0);
  me.callsite("a", {res2}, {d});
  std::vector<z_cfg_ref_t> cfgs({fa, fb, m});
  callgraph_t cg(cfgs);
  inter_params_t params;
  params.analyze_recursive_functions = precise;
  Dom init;
  analyzer_t an(cg, init, params);
  an.run(init);
  Dom inv = an.get_pre(fb, "entry");
  crab::outs() << "E3 precise=" << precise << " pre(b::entry)=" << inv << "\n";
  // b(5) -> a(4) -> b(3) -> a(2) -> b(1) -> a(0)
  bool ok = contains(inv, {{"x_in", 5}}, vfac) &&
            contains(inv, {{"x_in", 3}}, vfac) &&
            contains(inv, {{"x_in", 1}}, vfac);
  crab::outs() << "   " << (ok ? "sound" : "UNSOUND: b entry x_in=3 or 1 missing")
               << "\n";
  return ok ? 0 : 1;
}


// E4: DIRECT recursion f(x){ if (x>=1) f(x-1); } called as f(5)
static int e4(bool precise) {
  variable_factory_t vfac;
  z_var x_in = V(vfac, "x_in"), x = V(vfac, "x"), y = V(vfac, "y"), t = V(vfac, "t"), r = V(vfac, "r");
  z_var c = V(vfac, "c"), res1 = V(vfac, "res1");
  function_decl<z_number, varname_t> fd("f", {x_in}, {r});
  z_cfg_t f("entry", "exit", fd);
  {
    auto &e = f.insert("entry"); auto &bs = f.insert("base");
    auto &rc = f.insert("rec"); auto &ex = f.insert("exit");
    e >> bs; e >> rc; bs >> ex; rc >> ex;
    e.assign(x, x_in);
    bs.assume(x <= 0); bs.assign(r, 0);
    rc.assume(x >= 1); rc.sub(y, x, 1); rc.callsite("f", {t}, {y});
    rc.assign(r, t);
  }
  function_decl<z_number, varname_t> md("main", {}, {});
  z_cfg_t m("entry", "exit", md);
  auto &me = m.insert("entry"); auto &mx = m.insert("exit");
  me >> mx;
  me.assign(c, 5);
  me.callsite("f", {res1}, {c});
  std::vector<z_cfg_ref_t> cfgs({f, m});
  callgraph_t cg(cfgs);
  inter_params_t params;
  params.analyze_recursive_functions = precise;
  Dom init;
  analyzer_t an(cg, init, params);
  an.run(init);
  Dom inv = an.get_pre(f, "entry");
  crab::outs() << "E4 precise=" << precise << " pre(f::entry)=" << inv << "\n";
  bool ok = contains(inv, {{"x_in", 5}}, vfac) && contains(inv, {{"x_in", 3}}, vfac) && contains(inv, {{"x_in", 0}}, vfac);
  crab::outs() << "   " << (ok ? "sound" : "UNSOUND: f entry x_in=3 or 0 missing") << "\n";
  return ok ? 0 : 1;
}

int main() {
  crab::CrabEnableWarningMsg(false);
  int n = 0;
  n += e1(true);
  n += e1(false);
  n += e2();
  n += e3(true);
  n += e3(false);
  n += e4(true);
  n += e4(false);
  return n;
}
