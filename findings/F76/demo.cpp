// F76 (C03, C12): g++ -w -std=c++11 -O1 -I/repo/include -I/repo/_build/include -I/repo/tests demo.cpp /repo/_build/lib/libCrab.a -lgmp
// split_oct_domain::integer_tightening() halved an odd unary weight through a 32-bit FLOAT (24-bit mantissa):
//   2*floor((float)w / 2).  For w = 2^26 + 3 the float is 2^26, so 2x <= 2^26+3 was tightened to 2x <= 2^26 and the integer
//   solution x = 2^25 + 1 was lost (unsound); for w = 2^25 + 3 the float is 2^25 + 4 and the bound got WEAKER than x <= (w-1)/2.
// The second case was reported by the round-4 seeding sub-agent for C12 as behaviour of the unchanged tree.
#include "crab_lang.hpp"
#include "crab_dom.hpp"
using namespace crab::cfg_impl; using namespace crab::domain_impl; using namespace ikos;
int main() {
  variable_factory_t vfac; z_var x(vfac["x"], crab::INT_TYPE, 64), y(vfac["y"], crab::INT_TYPE, 64); int bad = 0;
  { z_soct_domain_t d; d += (x + y <= z_number(67108867)); d += (x - y <= z_number(0));     // 2x <= 2^26 + 3, so x <= 33554433
    crab::outs() << "x+y <= 2^26+3, x-y <= 0: " << d << "\n";
    d += (x == z_number(33554433)); d += (y == z_number(33554434));
    if (d.is_bottom()) { crab::outs() << "  UNSOUND: x = 33554433, y = 33554434 satisfies both constraints\n"; bad++; } }
  { z_soct_domain_t d; d += (x + y <= z_number(33554435)); d += (x - y <= z_number(0));     // 2x <= 2^25 + 3, so x <= 16777217
    interval<z_number> ix = d[x]; z_number b(16777218);
    crab::outs() << "x+y <= 2^25+3, x-y <= 0: x in " << ix << "\n";
    if (ix[b]) { crab::outs() << "  IMPRECISE (C12): x <= 16777217 is implied over the integers\n"; bad++; } }
  return bad ? 1 : 0;
}
