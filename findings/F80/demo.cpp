// UNCHANGED TREE (independent of patch.diff): cfg::simplify() terminates the
// process ("CRAB ERROR: Cannot remove entry block", std::exit(1)) when the
// entry block lies on a cycle that cannot be left, e.g.
//
//   entry -> b -> entry          (declared exit "exit" is not reachable)
//
// or an entry block whose only edge is a self loop.  merge_blocks_rec() sees
// that the entry has one predecessor and one successor and that the
// predecessor has a single successor, folds the entry into it and then calls
// remove(entry).  Such a CFG has no exit-reaching execution, so any result
// would preserve behaviour, but the transformation does not return a well
// formed CFG with the entry kept: it does not return at all.
//
// exit status 1 (produced by CRAB_ERROR itself) when the problem is
// observed, 0 if simplify() returns and the entry is still there.
#include "crab_lang.hpp"
#include <cstdio>

using namespace crab::cfg_impl;

int main(int argc, char **argv) {
  variable_factory_t vfac;
  z_var y(vfac["y"], crab::INT_TYPE, 32);
  bool self_loop = (argc > 1 && argv[1][0] == 's');
  z_cfg_t cfg("entry", "exit");
  z_basic_block_t &entry = cfg.insert("entry");
  cfg.insert("exit");
  entry.assign(y, 0);
  if (self_loop) {
    entry >> entry;
  } else {
    z_basic_block_t &b = cfg.insert("b");
    entry >> b;
    b >> entry;
    b.assign(y, 1);
  }
  cfg.simplify(); // CRAB ERROR: Cannot remove entry block
  printf("simplify() returned, %u blocks\n", (unsigned)cfg.size());
  return 0;
}
