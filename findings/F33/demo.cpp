// F33 (C08/C04): the congruence domain was written for a non-negative `%` (see the note at the top of congruence_impl.hpp) but
// z_number::operator% truncates: residues of negative numbers were negative, so normalisation, inclusion, meet, division and
// remainder were wrong as soon as a negative number was involved; the general meet returned lcm(a,a')Z + max(b,b') instead of
// solving the two congruences.   Exhaustive over moduli 0..6 and operands in [-6,6].
// build: g++ -w -std=c++11 -O1 -I/repo/include -I/repo/_build/include demo.cpp /repo/lib/congruence.cpp /repo/_build/lib/libCrab.a -lgmp
#include <crab/domains/congruence.hpp>
#include <crab/numbers/bignums.hpp>
#include <crab/support/os.hpp>
#include <vector>
using namespace ikos; typedef z_number Z; typedef congruence<Z> A;
static bool has(const A &a, int x) { if (a.is_bottom()) return false; if (a.is_top()) return true; Z zx(x); A ax(zx); return ax <= a; }
int main() {
  std::vector<A> vals; vals.push_back(A::top());
  for (int m = 0; m <= 6; m++) for (int r = -4; r <= 5; r++) { Z zm(m), zr(r); A cm(zm), cr(zr); vals.push_back(m == 0 ? cr : (cm * A::top()) + cr); }
  long bad = 0; int shown = 0; const int R = 6;
  auto report = [&](const char *op, const A &a, const A &b, const A &r, int x, int y, int z) {
    bad++; if (shown < 6) { shown++; crab::outs() << a << " " << op << " " << b << " = " << r << " misses " << x << "," << y << " -> " << z << "\n"; } };
  for (auto &a : vals) for (auto &b : vals) {
    A s = a + b, d = a - b, m = a & b, j = a | b; bool le = a <= b;
    for (int x = -R; x <= R; x++) { bool ia = has(a, x), ib = has(b, x);
      if (ia && ib && !has(m, x)) report("meet", a, b, m, x, x, x);
      if ((ia || ib) && !has(j, x)) report("join", a, b, j, x, x, x);
      if (le && ia && !ib) report("<=", a, b, a, x, x, x);
      if (!ia) continue;
      for (int y = -R; y <= R; y++) { if (!has(b, y)) continue;
        if (!has(s, x + y)) report("+", a, b, s, x, y, x + y);
        if (!has(d, x - y)) report("-", a, b, d, x, y, x - y); } }
  }
  // division and remainder are only total when the divisor cannot be 0
  for (auto &a : vals) for (auto &b : vals) {
    if (has(b, 0) && !(b == A(Z(0)))) { /* contains 0 among others: skip y = 0 below */ }
    if (b == A(Z(0))) continue;
    A q = a / b, r = a % b;
    for (int x = -R; x <= R; x++) { if (!has(a, x)) continue;
      for (int y = -R; y <= R; y++) { if (!y || !has(b, y)) continue;
        if (!has(q, x / y)) report("/", a, b, q, x, y, x / y);
        if (!has(r, x % y)) report("%", a, b, r, x, y, x % y); } }
  }
  crab::outs() << bad << " unsound results\n";
  return bad ? 1 : 0;
}
