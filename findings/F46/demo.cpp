// F46..F50 (C11; F49/F50 also C14): reproducers written by the round-2 seeding sub-agent for C11 for behaviour of the
// UNCHANGED tree (not part of its seeded change).  Build:
//   g++ -std=c++11 -O1 -w -I/repo/include -I/repo/_build/include -I/repo/tests demo.cpp /repo/_build/lib/libCrab.a -lgmp -o demo
//   ./demo | grep UNSOUND      (6 lines before the fixes, none after)
//  U7 = F46 backward int_cast with a Boolean destination      (fix d39f166)
//  U4 = F47 forward-backward analyzer started at a block != cfg.entry()  (fix 8ef8c7a)
//  U3 = F48 run_backward() twice on the same object            (fix 1aac75a)
//  U1 = F49 backward_array_store: the written cell keeps its post-constraint (fix bc85e39)
//  U2, U9 = F50 backward_array_store_range                      (fix ba7f8ef)
// NOT part of the seeded change.  Reproducers for behaviour of the
// UNCHANGED tree that already violates property C11 (noticed while
// exploring).  Build like demo.cpp:
//   g++ -std=c++11 -O1 -w -I$ROOT/include -I$ROOT/_build/include -I$ROOT/tests \
//       extra_unchanged_tree_repro.cpp $ROOT/_build/lib/libCrab.a -lgmp -o extra
// Every line printed with "UNSOUND" is a violation on the unchanged tree.

#include "crab_dom.hpp"
#include "crab_lang.hpp"
#include <crab/analysis/bwd_analyzer.hpp>

using namespace crab;
using namespace crab::cfg;
using namespace crab::cfg_impl;
using namespace crab::domain_impl;

// pure backward analysis from the error states, no forward invariants
template <typename Dom> Dom pure_bwd(z_cfg_t &cfg, std::string block) {
  using bwd_t =
      crab::analyzer::necessary_preconditions_fixpoint_iterator<z_cfg_ref_t,
                                                                 Dom>;
  Dom fac;
  crab::fixpoint_parameters params;
  bwd_t B(z_cfg_ref_t(cfg), fac, false, params);
  B.run_backward(fac.make_bottom());
  return B[block];
}

// number of assertions the forward+backward analyzer claims to be safe
template <typename Dom>
unsigned fwd_bwd(z_cfg_t &cfg, std::string fwd_entry = "") {
  using ana_t =
      crab::analyzer::intra_forward_backward_analyzer<z_cfg_ref_t, Dom>;
  Dom fac;
  ana_t A(z_cfg_ref_t(cfg), fac);
  typename ana_t::assumption_map_t assumptions;
  crab::fixpoint_parameters fp;
  crab::analyzer::fwd_bwd_parameters params;
  params.enable_backward() = true;
  if (fwd_entry == "")
    A.run(fac.make_top(), assumptions, nullptr, fp, params);
  else
    A.run(fwd_entry, fac.make_top(), assumptions, nullptr, fp, params);
  std::set<const typename ana_t::statement_t *> safe;
  A.get_safe_assertions(safe);
  return safe.size();
}

int main() {
  crab::CrabEnableWarningMsg(false);
  variable_factory_t vfac;
  z_var A(vfac["A"], crab::ARR_INT_TYPE);
  z_var x(vfac["x"], crab::INT_TYPE, 32);
  z_var y(vfac["y"], crab::INT_TYPE, 32);
  z_var z16(vfac["z"], crab::INT_TYPE, 16);
  z_var i(vfac["i"], crab::INT_TYPE, 32);
  z_var b(vfac["b"], crab::BOOL_TYPE, 1);

  { // U1: backward_array_store, constant index: if some OTHER cell
    // overlaps the written cell only the overlapping cells are killed,
    // the written cell itself keeps its post-constraint.
    //   bb: A[4..7] := x; z := A[6..7]; y := A[4..7]; assert(y <= 0)
    // violated from every state with x >= 1 whatever A contains.
    z_cfg_t cfg("bb", "exit");
    auto &bb = cfg.insert("bb");
    auto &ex = cfg.insert("exit");
    bb >> ex;
    bb.array_store(A, 4, x, 4);
    bb.array_load(z16, A, 6, 2);
    bb.array_load(y, A, 4, 4);
    bb.assertion(y <= 0);
    z_aa_int_t pre = pure_bwd<z_aa_int_t>(cfg, "bb");
    crab::outs() << "U1 pre(bb)=" << pre
                 << (pre.is_top() ? "" : "   <-- UNSOUND: constrains the old "
                                         "content of A, says nothing on x")
                 << "\n";
  }
  { // U2: backward_array_store_range returns without doing anything when
    // a bound is not a constant in the forward invariant.
    //   entry: A[4..7] := 0
    //   bb1: i:=*; assume(4<=i<=8); A[0..i] := 7; y := A[4..7]; assert(y<=5)
    // always violated (y = 7).
    z_cfg_t cfg("entry", "exit");
    auto &entry = cfg.insert("entry");
    auto &bb1 = cfg.insert("bb1");
    auto &ex = cfg.insert("exit");
    entry >> bb1;
    bb1 >> ex;
    entry.array_store(A, 4, 0, 4);
    bb1.havoc(i);
    bb1.assume(i >= 4);
    bb1.assume(i <= 8);
    bb1.array_store_range(A, 0, i, 7, 4);
    bb1.array_load(y, A, 4, 4);
    bb1.assertion(y <= 5);
    z_aa_int_t pre = pure_bwd<z_aa_int_t>(cfg, "entry");
    crab::outs() << "U2 pre(entry)=" << pre
                 << (pre.is_bottom() ? "   <-- UNSOUND: always violated" : "")
                 << "\n";
  }
  { // U9: backward_array_store_range with constant bounds meets with the
    // forward invariant (that holds BEFORE the whole range store) after
    // each single cell, while the other cells of the range still carry
    // their post-constraints.
    //   entry: A[0..3] := 0; A[4..7] := 0
    //   bb1: A[0..4] := 7 (range); y := A[4..7]; assert(y <= 5)
    // always violated (y = 7) but the fwd+bwd analyzer proves it.
    z_cfg_t cfg("entry", "exit");
    auto &entry = cfg.insert("entry");
    auto &bb1 = cfg.insert("bb1");
    auto &ex = cfg.insert("exit");
    entry >> bb1;
    bb1 >> ex;
    entry.array_store(A, 0, 0, 4);
    entry.array_store(A, 4, 0, 4);
    bb1.array_store_range(A, 0, 4, 7, 4);
    bb1.array_load(y, A, 4, 4);
    bb1.assertion(y <= 5);
    unsigned n = fwd_bwd<z_aa_int_t>(cfg);
    crab::outs() << "U9 fwd+bwd proved " << n << " assertion(s)"
                 << (n > 0 ? "   <-- UNSOUND: always violated" : "") << "\n";
  }
  { // U7: backward of an integer cast whose destination is a Boolean
    // (flat_boolean_numerical_domain): the Boolean value of the
    // destination is not forgotten.
    //   bb: b := trunc(x); assert(b)      violated when x = 0
    z_cfg_t cfg("bb", "exit");
    auto &bb = cfg.insert("bb");
    auto &ex = cfg.insert("exit");
    bb >> ex;
    bb.truncate(x, b);
    bb.bool_assert(b);
    z_bool_interval_domain_t pre =
        pure_bwd<z_bool_interval_domain_t>(cfg, "bb");
    crab::outs() << "U7 pre(bb)=" << pre
                 << (pre.is_top() ? "" : "   <-- UNSOUND: b is overwritten, "
                                         "its old value is irrelevant")
                 << "\n";
  }
  { // U4: intra_forward_backward_analyzer::run(entry, ...) with entry !=
    // cfg.entry(): blocks before `entry` get bottom and the dominator
    // tree (rooted at cfg.entry()) is used to discharge assertions.
    //   A: x := 5   B: y := 0   C: assert(x <= 0)    forward started at B
    z_cfg_t cfg("A", "C");
    auto &bA = cfg.insert("A");
    auto &bB = cfg.insert("B");
    auto &bC = cfg.insert("C");
    bA >> bB;
    bB >> bC;
    bA.assign(x, 5);
    bB.assign(y, 0);
    bC.assertion(x <= 0);
    unsigned n = fwd_bwd<z_interval_domain_t>(cfg, "B");
    crab::outs() << "U4 fwd+bwd from B proved " << n << " assertion(s)"
                 << (n > 0 ? "   <-- UNSOUND: from B with x=1 it is violated"
                           : "")
                 << "\n";
  }
  { // U3: run_backward twice on the same object without clear(): the
    // second run returns the preconditions of the first (insert does not
    // overwrite).
    using bwd_t = crab::analyzer::necessary_preconditions_fixpoint_iterator<
        z_cfg_ref_t, z_interval_domain_t>;
    z_cfg_t cfg("A", "C");
    auto &bA = cfg.insert("A");
    auto &bC = cfg.insert("C");
    bA >> bC;
    bA.assign(y, 0);
    z_interval_domain_t fac;
    crab::fixpoint_parameters params;
    bwd_t Bw(z_cfg_ref_t(cfg), fac, true /*good states*/, params);
    z_interval_domain_t p1, p2;
    p1 += (x <= 0);
    p2 += (x <= 10);
    Bw.run_backward(p1);
    Bw.run_backward(p2);
    z_interval_domain_t pre = Bw["A"];
    z_interval_domain_t probe;
    probe += (x == 5);
    crab::outs() << "U3 second run pre(A)=" << pre
                 << ((pre & probe).is_bottom()
                         ? "   <-- UNSOUND: x=5 reaches the exit with x<=10"
                         : "")
                 << "\n";
  }
  return 0;
}
