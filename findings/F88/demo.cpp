// Behaviour of the UNCHANGED tree (independent of _seed/patch.diff):
// the inter-procedural assertion crawler maps the callee's formal parameters
// to the actual parameters of a call site with discrete_domain::rename, which
// renames one variable after the other. If the caller uses variables with the
// same names as the callee's formals (tests/assertion_crawler/crawler-2.cc
// does: bar and foo share i1..i4,o1,o2) in another order, the substitution is
// not simultaneous and a just-renamed variable is renamed again.
//
//   first(p, q) returns (o):   o := p
//   main:  y := first(q, p);  assert(y >= 1)
//
// y is computed from main's q. {p} -> (p:=q) -> {q} -> (q:=p) -> {p}: the
// crawler reports that the assertion depends on main's p only.
//
// Exit status: 1 if the violation is observed, 0 otherwise.
#include "crab_lang.hpp"
#include <crab/analysis/dataflow/assertion_crawler.hpp>
#include <crab/cg/cg.hpp>

using namespace crab::cfg;
using namespace crab::cfg_impl;
using namespace crab::cg;

int main() {
  variable_factory_t vfac;
  z_var p(vfac["p"], crab::INT_TYPE, 32);
  z_var q(vfac["q"], crab::INT_TYPE, 32);
  z_var o(vfac["o"], crab::INT_TYPE, 32);
  z_var y(vfac["y"], crab::INT_TYPE, 32);

  function_decl<ikos::z_number, varname_t> first_decl("first", {p, q}, {o});
  z_cfg_t first("f_entry", "f_entry", first_decl);
  first.insert("f_entry").assign(o, p);

  function_decl<ikos::z_number, varname_t> main_decl("main", {}, {});
  z_cfg_t mainf("m_entry", "m_exit", main_decl);
  z_basic_block_t &m_entry = mainf.insert("m_entry");
  z_basic_block_t &m_exit = mainf.insert("m_exit");
  m_entry >> m_exit;
  m_entry.callsite("first", {y}, {q, p});
  m_exit.assertion(y >= 1);

  using callgraph_t = call_graph<z_cfg_ref_t>;
  std::vector<z_cfg_ref_t> cfgs({mainf, first});
  callgraph_t cg(cfgs);
  crab::analyzer::inter_assertion_crawler<callgraph_t> crawler(cg);
  crawler.run();
  auto facts = crawler.get_results(mainf, "m_entry");
  crab::outs() << "facts at the entry of main: " << facts << "\n";
  unsigned violations = 0;
  if (!facts.is_top()) {
    for (auto kv : facts) {
      auto deps = kv.second;
      if (!deps.contain(q)) {
        crab::outs() << "  VIOLATION: y = first(q, p) = q, but q is not "
                     << "listed\n";
        ++violations;
      }
    }
  }
  return violations ? 1 : 0;
}
