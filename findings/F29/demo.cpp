// F29 (C10): build with  g++ -std=c++11 -O1 -I/repo/include -I/repo/_build/include -I/repo/tests demo.cpp /repo/_build/lib/libCrab.a -lgmp
// candidate (C10): td_summ_abs_transformer wires formals := actuals sequentially; g(a_in,b_in) called as g(b_in,a_in) with shared names
#include "crab_lang.hpp"
#include "crab_dom.hpp"
#include <crab/analysis/inter/bottom_up_inter_analyzer.hpp>
#include <crab/cg/cg_bgl.hpp>
using namespace crab::cfg; using namespace crab::cfg_impl; using namespace crab::domain_impl; using namespace crab::cg_impl;
using callgraph_t = z_cg_t;
using params_t = crab::analyzer::inter_analyzer_parameters<callgraph_t>;
using Dom = z_interval_domain_t;
using analyzer_t = crab::analyzer::bottom_up_inter_analyzer<callgraph_t, Dom, Dom>;
int main() {
  crab::CrabEnableWarningMsg(false);
  variable_factory_t vfac;
  auto V = [&](const char *n) { return z_var(vfac[n], crab::INT_TYPE, 32); };
  z_var a_in = V("a_in"), b_in = V("b_in"), r = V("r"), res = V("res");
  function_decl<z_number, varname_t> gd("g", {a_in, b_in}, {r});
  z_cfg_t g("entry", "exit", gd);
  { auto &e = g.insert("entry"); auto &x = g.insert("exit"); e >> x; e.sub(r, a_in, b_in); }       // r = a_in - b_in
  function_decl<z_number, varname_t> md("main", {}, {});
  z_cfg_t m("entry", "exit", md);
  auto &me = m.insert("entry"); auto &mx = m.insert("exit"); me >> mx;
  me.assign(a_in, 1); me.assign(b_in, 2);
  me.callsite("g", {res}, {b_in, a_in});      // g(2, 1) -> res = 1, callee entered with a_in=2, b_in=1
  std::vector<z_cfg_ref_t> cfgs({g, m});
  callgraph_t cg(cfgs);
  params_t params;
  Dom top;
  analyzer_t an(cg, top, top, params);
  an.run(top);
  Dom ge = an.get_pre(g, "entry");
  Dom mxi = an.get_pre(m, "exit");
  crab::outs() << "pre(g::entry) = " << ge << "   pre(main::exit) = " << mxi << "\n";
  int bad = 0;
  { Dom t(ge); t += (z_lin_exp_t(a_in) == z_number(2)); t += (z_lin_exp_t(b_in) == z_number(1));
    if (t.is_bottom()) { crab::outs() << "UNSOUND: g is entered with a_in=2, b_in=1\n"; bad++; } }
  { Dom t(mxi); t += (z_lin_exp_t(res) == z_number(1));
    if (t.is_bottom()) { crab::outs() << "UNSOUND: res = 1 at main::exit\n"; bad++; } }
  return bad ? 1 : 0;
}
