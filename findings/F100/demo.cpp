// UNCHANGED-TREE violation #3 (independent of patch.diff).
//
// With region.skip_unknown_regions=false, region_domain::ref_store into an
// unknown region whose dynamic type is top (e.g. after joining a path that
// stored an int with a path that stored a reference) returns early and does
// not add the allocation sites (nor the tags) of the stored reference to the
// region.  ref_load, however, copies the allocation sites of the region to
// the loaded reference before looking at the dynamic type, so the reported
// set of allocation sites misses the actual one.
//
//   path A: store(U, r, 5)       path B: store(U, r, a)     -- a allocated at as_1
//   join;   store(U, r, b)                                   -- b allocated at as_2
//   y := load(U, r)              concrete: y = b (as_2); reported sites: {as_1}
//
// exit status 1 when the violation is observed.
#include "../tests/common.hpp"
using namespace crab::cfg_impl;
using namespace crab::domain_impl;
using namespace ikos;

int main() {
  crab::CrabEnableWarningMsg(false);
  variable_factory_t vfac;
  crab::tag_manager as_man;
  z_var_or_cst_t size4(z_number(4), crab::variable_type(crab::INT_TYPE, 32));
  z_var_or_cst_t n5(z_number(5), crab::variable_type(crab::INT_TYPE, 32));
  region_domain_params prm(true, false, true, false, false /*skip_unknown_regions*/);
  crab_domain_params_man::get().update_params(prm);
  z_var r(vfac["r"], crab::REF_TYPE, 32);
  z_var a(vfac["a"], crab::REF_TYPE, 32);
  z_var b(vfac["b"], crab::REF_TYPE, 32);
  z_var y(vfac["y"], crab::REF_TYPE, 32);
  z_var U(vfac["U"], crab::REG_UNKNOWN_TYPE, 32);
  z_var T(vfac["T"], crab::REG_INT_TYPE, 32);
  crab::allocation_site as_r = as_man.mk_tag(), as_a = as_man.mk_tag(),
                        as_b = as_man.mk_tag();
  z_rgn_int_t base;
  base.region_init(U);
  base.region_init(T);
  base.ref_make(r, U, size4, as_r);
  base.ref_make(a, T, size4, as_a);
  base.ref_make(b, T, size4, as_b);
  z_rgn_int_t A(base), B(base);
  A.ref_store(r, U, n5);
  B.ref_store(r, U, a);
  z_rgn_int_t J = A | B;
  J.ref_store(r, U, b);
  J.ref_load(r, U, y);
  std::vector<crab::allocation_site> sites;
  bool known = J.get_allocation_sites(y, sites);
  bool has_b = false;
  crab::outs() << "known=" << known << " sites:";
  for (auto &s : sites) {
    crab::outs() << " " << s;
    if (s == as_b) has_b = true;
  }
  crab::outs() << "   (actual: " << as_b << ")\n";
  if (known && !has_b) {
    crab::outs() << "UNSOUND: the reported allocation sites miss the actual one\n";
    return 1;
  }
  return 0;
}
