// F26 (C04): powerset_domain::operator<= smashes BOTH operands before comparing, so a <= b can answer yes although a state of a is
// in none of b's disjuncts:  {x=0} <= ({x=-1} or {x=1}).
// build: g++ -std=c++11 -O1 -I/repo/include -I/repo/_build/include -I/repo/tests demo.cpp /repo/_build/lib/libCrab.a -lgmp
#include "crab_lang.hpp"
#include "crab_dom.hpp"
#include <crab/domains/powerset_domain.hpp>
using namespace crab; using namespace crab::cfg_impl; using namespace crab::domain_impl; using namespace ikos;
typedef crab::domains::powerset_domain<z_interval_domain_t> pw_t;
int main() {
  crab::CrabEnableWarningMsg(false);
  variable_factory_t vfac;
  z_var x(vfac["x"], crab::INT_TYPE, 32);
  pw_t a; a.assign(x, z_number(0));
  pw_t b1; b1.assign(x, z_number(-1));
  pw_t b2; b2.assign(x, z_number(1));
  pw_t b = b1 | b2;
  bool le = a <= b;
  pw_t m(b); m += z_lin_cst_t(z_lin_exp_t(x) == z_number(0));
  crab::outs() << "a = " << a << "  b = " << b << "  a <= b : " << le << "   (b meet x==0 is " << (m.is_bottom() ? "bottom" : "not bottom") << ")\n";
  int bad = 0;
  if (le && m.is_bottom()) { crab::outs() << "UNSOUND: inclusion answers yes but the state x=0 of a is not in b\n"; bad++; }
  if (!(b <= b)) { crab::outs() << "b <= b must hold\n"; bad++; }
  if (!(b1 <= b)) { crab::outs() << "b1 <= b1|b2 must hold\n"; bad++; }
  return bad ? 1 : 0;
}
