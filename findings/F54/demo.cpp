#include "crab_lang.hpp"
#include "crab_dom.hpp"
using namespace crab::cfg_impl; using namespace crab::domain_impl; using namespace ikos;
static int bad=0;
template<class D> void t(const char*n){
  variable_factory_t vfac; z_var x(vfac["x"], crab::INT_TYPE, 32), y(vfac["y"], crab::INT_TYPE, 32);
  { D d; d += (x >= z_number(2)); d += (x <= z_number(10)); d += (z_number(2)*x != z_number(5));
    auto i = d[x]; crab::outs() << n << " x in [2,10]; 2x != 5: " << i << "\n"; if (!(interval<z_number>(z_number(2)) <= i)) { crab::outs() << "  UNSOUND\n"; bad++; } }
  { D d; d += (x >= z_number(2)); d += (x <= z_number(10)); d += (y >= z_number(4)); d += (y <= z_number(5)); d += (z_number(2)*x != y);
    auto i = d[x]; crab::outs() << n << " x in [2,10], y in [4,5]; 2x != y: " << i << "\n"; if (!(interval<z_number>(z_number(2)) <= i)) { crab::outs() << "  UNSOUND (x=2,y=5)\n"; bad++; } }
  { D d; d += (x >= z_number(2)); d += (x <= z_number(10)); d += (z_number(2)*x != z_number(4));
    auto i = d[x]; crab::outs() << n << " x in [2,10]; 2x != 4: " << i << "  (precision: [3,10] expected)\n"; }
}
int main(){ t<z_interval_domain_t>("interval"); t<z_sdbm_domain_t>("split_dbm"); t<z_dbm_domain_t>("sparse_dbm"); t<z_soct_domain_t>("split_oct"); t<z_dis_interval_domain_t>("dis_interval"); return bad?1:0; }
