// Behaviour of the UNCHANGED tree that already violates C01 (not the seeded
// change): the interval domain's transfer function for  assume(c*x != k)  and
// for the strict inequalities  assume(c*x < k) / assume(c*x > k)  with a
// non-unit coefficient c removes states that satisfy the constraint.
//
//   x in [2,10],  assume(2*x != 5)   ->  {x -> [3,10]}   (x = 2: 4 != 5 holds)
//   x in [0,10],  assume(2*x <  5)   ->  {x -> [0, 1]}   (x = 2: 4 <  5 holds)
//   x in [-10,10],assume(2*x > -5)   ->  {x -> [-1,10]}  (x = -2: -4 > -5 holds)
//
// Cause: linear_interval_solver.hpp.  A strict inequality e < 0 is rewritten
// into {e <= 0, e != 0}; for a disequation the solver computes
// rhs = residual / coefficient with the (truncating) integer interval division
// and, if rhs is a singleton, trim_interval() (lib/interval.cpp) removes it
// from the boundary of the pivot's interval.  With |c| > 1 and k not divisible
// by c the quotient 5/2 = 2 is not a solution of 2*x = 5 at all, so a feasible
// value is trimmed.
//
// Exit status 1 when the unsoundness is observed (domain level and through the
// forward analyzer).
#include "crab_dom.hpp"
#include "crab_lang.hpp"
#include <crab/analysis/fwd_analyzer.hpp>

using namespace crab::cfg;
using namespace crab::cfg_impl;
using namespace crab::domain_impl;
using namespace crab::analyzer;

using dom_t = z_interval_domain_t;

static bool contains(dom_t inv, const z_var &x, long v) {
  inv += z_lin_cst_t(z_lin_exp_t(x) == z_lin_exp_t(ikos::z_number(v)));
  return !inv.is_bottom();
}

int main() {
  int bad = 0;
  variable_factory_t vfac;
  z_var x(vfac["x"], crab::INT_TYPE, 32);
  {
    dom_t d;
    d += (x >= 2);
    d += (x <= 10);
    d += z_lin_cst_t(2 * x != 5);
    crab::outs() << "x in [2,10]; assume(2*x != 5): " << d << "\n";
    if (!contains(d, x, 2)) {
      crab::outs() << "  UNSOUND: x = 2 satisfies 2*x != 5\n";
      bad++;
    }
  }
  {
    dom_t d;
    d += (x >= -10);
    d += (x <= 10);
    d += z_lin_cst_t(2 * x > -5);
    crab::outs() << "x in [-10,10]; assume(2*x > -5): " << d << "\n";
    if (!contains(d, x, -2)) {
      crab::outs() << "  UNSOUND: x = -2 satisfies 2*x > -5\n";
      bad++;
    }
  }
  { // through the forward analyzer
    z_cfg_t cfg("entry", "exit");
    z_basic_block_t &entry = cfg.insert("entry");
    z_basic_block_t &exit = cfg.insert("exit");
    entry >> exit;
    entry.havoc(x);
    entry.assume(x >= 0);
    entry.assume(x <= 10);
    exit.assume(2 * x < 5);
    crab::fixpoint_parameters params;
    intra_fwd_analyzer<z_cfg_ref_t, dom_t> a(cfg, dom_t(), nullptr, params);
    a.run(dom_t());
    dom_t post = a.get_post("exit");
    crab::outs() << "havoc(x); assume(0<=x<=10) ; assume(2*x < 5): post(exit) = "
                 << post << "\n";
    // the execution that picks x = 2 passes every assume and leaves "exit"
    if (!contains(post, x, 2)) {
      crab::outs() << "  UNSOUND: the execution with x = 2 leaves block exit\n";
      bad++;
    }
  }
  return bad ? 1 : 0;
}
