// F31 (C16/C12): normalize() after widening passed the set of UNSTABLE vertices to GraphOps::close_after_widen as its `is_stable` argument, so the
// closure was recomputed from exactly the vertices that had not changed: the normalised value did not entail constraints it implies
// (m-s<=1, d-m<=1 but not d-s<=2) and an explicit normalize() of a copy changed the result of later operations.
// build: g++ -std=c++11 -O1 -I/repo/include -I/repo/_build/include -I/repo/tests demo.cpp /repo/_build/lib/libCrab.a -lgmp
#include "crab_lang.hpp"
#include "crab_dom.hpp"
using namespace crab; using namespace crab::cfg_impl; using namespace crab::domain_impl; using namespace ikos;
template <typename D> int run(const char *name) {
  variable_factory_t vfac;
  z_var s(vfac["s"], crab::INT_TYPE, 32), m(vfac["m"], crab::INT_TYPE, 32), d(vfac["d"], crab::INT_TYPE, 32), q(vfac["q"], crab::INT_TYPE, 32);
  auto mk = [&](int ds, int qq) { D x; x += (z_lin_exp_t(m) - z_lin_exp_t(s) <= z_number(1)); x += (z_lin_exp_t(d) - z_lin_exp_t(m) <= z_number(1));
                                   x += (z_lin_exp_t(d) - z_lin_exp_t(s) <= z_number(ds)); x += (z_lin_exp_t(q) <= z_number(qq)); return x; };
  D a = mk(1, 0), b = mk(2, 0), c = mk(2, 1);
  D W1 = a || b;
  D W1n(W1); W1n.normalize();
  z_lin_cst_t implied(z_lin_exp_t(d) - z_lin_exp_t(s) <= z_number(2));
  crab::outs() << name << ": W1 = a || b = " << W1 << "\n   normalized copy = " << W1n << "   entails d-s<=2: " << W1n.entails(implied) << "\n";
  D r1 = W1 || c;  r1 -= m;
  D r2 = W1n || c; r2 -= m;
  crab::outs() << "   (W1 || c) - m = " << r1 << "     (normalize(W1) || c) - m = " << r2 << "\n";
  int bad = 0;
  if (!(r1 <= r2 && r2 <= r1)) { crab::outs() << "   explicit normalize() of a copy changed the result of later operations\n"; bad++; }
  return bad;
}
int main() { crab::CrabEnableWarningMsg(false); int bad = run<z_sdbm_domain_t>("split_dbm"); return bad ? 1 : 0; }
