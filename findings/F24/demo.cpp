// F24 (C03/C02): uf_domain builds the term of a load from the terms of the region and the reference, but its region operations
// (store, make_ref, region_init, ...) were no-ops, so two loads separated by a store / a redefinition of the reference got the
// SAME term and the domain exported x == y.   build: g++ -std=c++11 -O1 -I/repo/include -I/repo/_build/include -I/repo/tests demo.cpp /repo/_build/lib/libCrab.a -lgmp
#include "crab_lang.hpp"
#include "crab_dom.hpp"
#include <crab/domains/uf_domain.hpp>
using namespace crab; using namespace crab::cfg_impl; using namespace crab::domain_impl; using namespace ikos;
typedef crab::domains::uf_domain<z_number, varname_t> uf_t;
int main() {
  crab::CrabEnableWarningMsg(false);
  variable_factory_t vfac;
  z_var p(vfac["p"], crab::REF_TYPE);
  z_var M(vfac["M"], crab::REG_INT_TYPE, 32);
  z_var x(vfac["x"], crab::INT_TYPE, 32), y(vfac["y"], crab::INT_TYPE, 32), v(vfac["v"], crab::INT_TYPE, 32);
  crab::tag_manager as_man;
  z_var_or_cst_t size4(z_number(4), crab::variable_type(crab::INT_TYPE, 32));
  int bad = 0;
  { uf_t d; d.region_init(M); d.ref_make(p, M, size4, as_man.mk_tag());
    d.ref_load(p, M, x);
    d.ref_store(p, M, z_var_or_cst_t(v));       // *p := v  (v unconstrained)
    d.ref_load(p, M, y);
    auto csts = d.to_linear_constraint_system();
    crab::outs() << "x := *p; *p := v; y := *p   ->  " << d << "   csts: " << csts << "\n";
    uf_t t(d); t += z_lin_cst_t(z_lin_exp_t(x) != z_lin_exp_t(y));
    bool exported = false;
    for (auto c : csts) { if (c.is_equality() && c.size() == 2) exported = true; }
    if (exported) { crab::outs() << "   UNSOUND: exports x == y across a store\n"; bad++; } }
  { uf_t d; d.region_init(M); d.ref_make(p, M, size4, as_man.mk_tag());
    d.ref_load(p, M, x);
    d.ref_make(p, M, size4, as_man.mk_tag());    // p := another object
    d.ref_load(p, M, y);
    crab::outs() << "x := *p; p := make_ref; y := *p   ->  " << d << "\n";
    bool exported = false;
    for (auto c : d.to_linear_constraint_system()) { if (c.is_equality() && c.size() == 2) exported = true; }
    if (exported) { crab::outs() << "   UNSOUND: exports x == y across a redefinition of p\n"; bad++; } }
  return bad ? 1 : 0;
}
