// C15 violation: region_domain::region_copy returns early when the source is
// an untracked (unknown, not yet typed) region WITHOUT forgetting the ghost
// variable that models the old contents of the destination region.  The
// destination takes over the (unknown) dynamic type of the source.  The next
// ref_store into it fixes its dynamic type but skips the write into the ghost
// variable (is_tracked_region() is evaluated on the not-yet-updated m_rgn_env),
// so the region becomes tracked again with the STALE contents it had before
// the region_copy, and a strong read returns the stale value.
//
// needs region.skip_unknown_regions=false and unknown regions.
#include "../tests/common.hpp"
using namespace crab::cfg;
using namespace crab::cfg_impl;
using namespace crab::domain_impl;
using namespace ikos;
using namespace crab::domains;

template <class Dom> int run(const char *name) {
  variable_factory_t vfac;
  crab::tag_manager as_man;
  z_var_or_cst_t size4(z_number(4), crab::variable_type(crab::INT_TYPE, 32));
  z_var_or_cst_t five(z_number(5), crab::variable_type(crab::INT_TYPE, 32));
  z_var_or_cst_t seven(z_number(7), crab::variable_type(crab::INT_TYPE, 32));
  z_var U1(vfac["U1"], crab::REG_UNKNOWN_TYPE, 32);
  z_var U2(vfac["U2"], crab::REG_UNKNOWN_TYPE, 32);
  z_var r(vfac["r"], crab::REF_TYPE, 32);
  z_var q(vfac["q"], crab::REF_TYPE, 32);
  z_var x(vfac["x"], crab::INT_TYPE, 32);

  Dom inv;
  inv.region_init(U2);
  inv.region_init(U1);
  inv.ref_make(r, U2, size4, as_man.mk_tag());
  inv.ref_store(r, U2, five); // fixes the dynamic type of U2 (write skipped)
  inv.ref_store(r, U2, five); // U2 == 5
  crab::outs() << name << " before copy: " << inv << "\n";
  inv.region_copy(U2, U1);    // U2 := U1 (a fresh, never written region)
  inv.ref_make(q, U2, size4, as_man.mk_tag());
  inv.ref_store(q, U2, seven); // *q := 7
  inv.ref_load(q, U2, x);      // x := *q   (concretely x == 7)
  crab::outs() << name << " after x:=*q : " << inv << "\n";
  auto ix = inv[x];
  if (!(ikos::interval<z_number>(z_number(7)) <= ix)) {
    crab::outs() << "  VIOLATION: x = " << ix << " does not contain 7\n";
    return 1;
  }
  return 0;
}

int main() {
  region_domain_params p(false, false, false, false,
                         false /*skip_unknown_regions*/);
  crab_domain_params_man::get().update_params(p);
  int bad = 0;
  bad |= run<z_rgn_int_t>("region(intervals)");
  bad |= run<z_rgn_sdbm_t>("region(split_dbm)");
  return bad;
}
