// F78 (C12) KNOWN FINDING, not repaired: g++ -w -std=c++11 -O1 -I/repo/include -I/repo/_build/include -I/repo/tests demo.cpp /repo/_build/lib/libCrab.a -lgmp
// split_oct_domain::operator& closes the relations of the meet on the view that SKIPS the bound edges (SplitOctGraph) and never
// re-derives / tightens the unary bounds afterwards ("JN: this code needs to be tested" in the source), so the meet is not exact:
//   A = {x - z <= 0; y - x <= -5; y <= 6; ...}   B = {-x - y <= 4; y <= 1; ...}   (all variables in [-6,6])
//   y <= x - 5 and x + y >= -4 give 2x >= 1, i.e. x >= 1 over the integers, hence x + z >= 2:  (A & B).entails(-x - z <= -2) is false.
// Assuming the same constraints one after the other in a single value entails it.
// Found by the exactness aid findings/aids/exactfuzz.cpp (soct, seed 129).
#include "crab_lang.hpp"
#include "crab_dom.hpp"
using namespace crab::cfg_impl; using namespace crab::domain_impl; using namespace ikos;
int main() {
  variable_factory_t vfac; z_var x(vfac["x"], crab::INT_TYPE, 32), y(vfac["y"], crab::INT_TYPE, 32), z(vfac["z"], crab::INT_TYPE, 32);
  std::vector<z_lin_cst_t> cs = {z_lin_cst_t(x - z <= z_number(0)), z_lin_cst_t(y - x <= z_number(-5)), z_lin_cst_t(z >= z_number(-6)), z_lin_cst_t(x >= z_number(-6)), z_lin_cst_t(y <= z_number(6)),
                                 z_lin_cst_t(z_number(0) - x - y <= z_number(4)), z_lin_cst_t(z <= z_number(6)), z_lin_cst_t(x <= z_number(6)), z_lin_cst_t(y >= z_number(-6)), z_lin_cst_t(y <= z_number(1))};
  z_soct_domain_t a, b, seq;
  for (size_t i = 0; i < cs.size(); i++) { (i < cs.size() / 2 ? a : b) += cs[i]; seq += cs[i]; }
  z_soct_domain_t m = a & b;
  z_lin_cst_t goal(z_number(0) - x - z <= z_number(-2));
  crab::outs() << "A & B = " << m << "\n  entails " << goal << ": meet " << m.entails(goal) << ", sequential " << seq.entails(goal) << "\n";
  if (!m.entails(goal)) { crab::outs() << "INEXACT: the conjunction implies it over the integers\n"; return 1; }
  return 0;
}
