// Shared by the _seed/unchanged_tree_*.cpp reproducers: a finite-height value
// type (subsets of {0..7}, widening = join, narrowing = meet), exact block
// transformers, the engine under test and a reference Kleene solver.
// (Same code as in demo.cpp.)
#pragma once

#include "crab_lang.hpp"

#include <crab/fixpoint/interleaved_fixpoint_iterator.hpp>

#include <cstdio>
#include <map>
#include <string>
#include <vector>

using namespace crab::cfg_impl;

// ---------------------------------------------------------------------------
// Value type: subsets of {0,...,7}
// ---------------------------------------------------------------------------
struct pset {
  unsigned bits;
  pset() : bits(0xFFu) {}
  explicit pset(unsigned b) : bits(b & 0xFFu) {}
  pset make_top() const { return pset(0xFFu); }
  pset make_bottom() const { return pset(0u); }
  bool is_bottom() const { return bits == 0; }
  bool is_top() const { return bits == 0xFFu; }
  bool operator<=(const pset &o) const { return (bits & ~o.bits) == 0; }
  pset operator|(const pset &o) const { return pset(bits | o.bits); }
  void operator|=(const pset &o) { bits |= o.bits; }
  pset operator&(const pset &o) const { return pset(bits & o.bits); }
  // widening is join, narrowing is meet
  pset operator||(const pset &o) const { return pset(bits | o.bits); }
  pset operator&&(const pset &o) const { return pset(bits & o.bits); }
  pset widening_thresholds(const pset &o,
                           const crab::thresholds<ikos::z_number> &) const {
    return pset(bits | o.bits);
  }
  std::string str() const {
    std::string s = "{";
    bool first = true;
    for (unsigned v = 0; v < 8; ++v) {
      if (bits & (1u << v)) {
        if (!first)
          s += ",";
        s += std::to_string(v);
        first = false;
      }
    }
    return s + "}";
  }
};

inline crab::crab_os &operator<<(crab::crab_os &o, const pset &s) {
  o << s.str();
  return o;
}

// A block transformer is a relation on {0..7}: rel[v] = successors of state v.
struct relation {
  unsigned rel[8];
  unsigned image(unsigned s) const {
    unsigned r = 0;
    for (unsigned v = 0; v < 8; ++v)
      if (s & (1u << v))
        r |= rel[v];
    return r;
  }
};

static relation add_mod8(unsigned k) {
  relation r;
  for (unsigned v = 0; v < 8; ++v)
    r.rel[v] = 1u << ((v + k) % 8);
  return r;
}
static relation assume_lt(unsigned k) { // keeps the states x < k
  relation r;
  for (unsigned v = 0; v < 8; ++v)
    r.rel[v] = (v < k ? (1u << v) : 0u);
  return r;
}
static relation assume_ge(unsigned k) {
  relation r;
  for (unsigned v = 0; v < 8; ++v)
    r.rel[v] = (v >= k ? (1u << v) : 0u);
  return r;
}

using transformers_t = std::map<std::string, relation>;
using assumptions_t = std::unordered_map<std::string, pset>;

// ---------------------------------------------------------------------------
// The engine under test
// ---------------------------------------------------------------------------
class exact_iterator
    : public ikos::interleaved_fwd_fixpoint_iterator<z_cfg_ref_t, pset> {
  using base_t = ikos::interleaved_fwd_fixpoint_iterator<z_cfg_ref_t, pset>;
  const transformers_t &m_tr;

public:
  exact_iterator(z_cfg_ref_t cfg, const transformers_t &tr,
                 const crab::fixpoint_parameters &params)
      : base_t(cfg, pset(), params, false), m_tr(tr) {}

  pset analyze(const std::string &node, pset &&inv) override {
    return pset(m_tr.at(node).image(inv.bits));
  }
  void process_pre(const std::string &, pset) override {}
  void process_post(const std::string &, pset) override {}
};

// ---------------------------------------------------------------------------
// Reference: least solution of
//   pre(n)  = ((n == start ? init : {}) U  U_{p in preds(n)} post(p)) /\ A(n)
//   post(n) = image_n(pre(n))
// by plain Kleene iteration from bottom.
// ---------------------------------------------------------------------------
struct solution {
  std::map<std::string, unsigned> pre, post;
};

static solution least_solution(z_cfg_ref_t cfg, const transformers_t &tr,
                               const std::string &start, pset init,
                               const assumptions_t &assumptions) {
  solution s;
  for (auto it = cfg.label_begin(); it != cfg.label_end(); ++it) {
    s.pre[*it] = 0;
    s.post[*it] = 0;
  }
  bool change = true;
  while (change) {
    change = false;
    for (auto it = cfg.label_begin(); it != cfg.label_end(); ++it) {
      const std::string &n = *it;
      unsigned pre = (n == start ? init.bits : 0u);
      for (auto p : cfg.prev_nodes(n))
        pre |= s.post[p];
      auto a = assumptions.find(n);
      if (a != assumptions.end())
        pre &= a->second.bits;
      unsigned post = tr.at(n).image(pre);
      if (pre != s.pre[n] || post != s.post[n]) {
        s.pre[n] = pre;
        s.post[n] = post;
        change = true;
      }
    }
  }
  return s;
}

static unsigned compare(const char *what, exact_iterator &it, z_cfg_ref_t cfg,
                        const solution &expected) {
  unsigned errors = 0;
  for (auto l = cfg.label_begin(); l != cfg.label_end(); ++l) {
    pset pre = it.get_pre(*l), post = it.get_post(*l);
    if (pre.bits != expected.pre.at(*l)) {
      std::printf("  MISMATCH %s: pre(%s) = %s, least solution = %s\n", what,
                  l->c_str(), pre.str().c_str(),
                  pset(expected.pre.at(*l)).str().c_str());
      ++errors;
    }
    if (post.bits != expected.post.at(*l)) {
      std::printf("  MISMATCH %s: post(%s) = %s, least solution = %s\n", what,
                  l->c_str(), post.str().c_str(),
                  pset(expected.post.at(*l)).str().c_str());
      ++errors;
    }
  }
  return errors;
}

