// UNCHANGED TREE (no patch needed): a start block that cannot be reached from
// the CFG entry is never analysed.
//
// The WTO is built from the CFG entry only, so it does not contain blocks that
// are unreachable from it.  run(start, init, assumptions) skips WTO components
// until it meets `start`; if `start` is not in the WTO everything is skipped:
// pre(start) = init (written by run() itself) but post(start) and every block
// reachable from start stay at bottom.  `start` does not lie inside a loop, so
// it is an admissible start block in the literal reading of the property.
// (Arguably such CFGs are outside what Crab clients build.)
//
//   entry -> exit ;  u -> exit   (u has no predecessor)     u: x := x+1
//   start: u, x = 1
//   least solution: pre(u) = {1}, post(u) = {2}, pre(exit) = post(exit) = {2}
//   returned:       pre(u) = {1}, everything else bottom
//
// exit status 1 when the violation is observed, 0 otherwise.
#include "unchanged_tree_common.hpp"

int main() {
  z_cfg_t prog("entry", "exit");
  auto &entry = prog.insert("entry");
  auto &u = prog.insert("u");
  auto &exit = prog.insert("exit");
  entry >> exit;
  u >> exit;
  z_cfg_ref_t cfg(prog);

  transformers_t tr;
  tr["entry"] = add_mod8(0);
  tr["u"] = add_mod8(1);
  tr["exit"] = add_mod8(0);

  assumptions_t none;
  const pset init(1u << 1);

  crab::fixpoint_parameters params;
  solution expected = least_solution(cfg, tr, "u", init, none);
  exact_iterator it(cfg, tr, params);
  it.run("u", init, none);
  unsigned errors = compare("start block unreachable from entry", it, cfg, expected);
  if (errors) {
    std::printf("VIOLATION observed on the unchanged tree (%u invariants)\n",
                errors);
    return 1;
  }
  std::printf("no violation observed\n");
  return 0;
}
