// Behaviour of the UNCHANGED tree (independent of patch.diff):
//
// ikos::discrete_domain<E>::operator== (discrete_domains.hpp) is
//     (m_is_top && other.m_is_top) || (m_set == other.m_set)
// The second disjunct ignores the m_is_top flags. The "all elements" set
// top() has an empty m_set, so top() == bottom() (the empty set) is reported
// true, and more generally top() == s for any s whose tree is empty; the same
// holds after building top via `|` with a top operand. Equality of the set
// container therefore does not coincide with mutual inclusion:
//     top <= {}  is false, but  top == {}  is true.
// (crab::domains::set_domain::operator== has the same shape.)
//
// Exit status: 1 when the violation is observed, 0 otherwise.

#include <crab/domains/discrete_domains.hpp>
#include <crab/types/indexable.hpp>

using namespace ikos;

namespace {
class elem_t : public crab::indexable {
  index_t m_id;

public:
  elem_t(index_t id) : m_id(id) {}
  virtual index_t index() const override { return m_id; }
  virtual void write(crab::crab_os &o) const override { o << "e" << m_id; }
  bool operator<(const elem_t &o) const { return m_id < o.m_id; }
  bool operator==(const elem_t &o) const { return m_id == o.m_id; }
};
} // namespace

int main() {
  using set_t = discrete_domain<elem_t>;
  set_t top = set_t::top();
  set_t empty = set_t::bottom();

  bool violated = false;
  bool eq = (top == empty);
  bool mutual = (top <= empty) && (empty <= top);
  crab::outs() << "top == {}                 : " << eq << "\n";
  crab::outs() << "top <= {} && {} <= top    : " << mutual << "\n";
  if (eq != mutual) {
    crab::outs() << "VIOLATION: equality disagrees with mutual inclusion\n";
    violated = true;
  }

  // top obtained through union with a top operand
  set_t s(elem_t(3));
  set_t u = s | top;
  if (u.is_top() && (u == empty)) {
    crab::outs() << "VIOLATION: ({e3} | top) == {} is true\n";
    violated = true;
  }
  return violated ? 1 : 0;
}
