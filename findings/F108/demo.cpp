// C15 violation: the ghost-variable manager of a region_domain object keeps a
// std::function (get_type_fn) whose lambda captured the `this` of the object
// it was FIRST created in.  region_domain's copy/move constructors and
// assignment operators copy m_ghost_var_man verbatim, so a copied abstract
// state S2 asks the ORIGINAL state S1 for the dynamic type of an unknown
// region (or reads freed memory if S1 is gone).  When the dynamic types differ
// (region(int32) in S1, re-interpreted to region(ref) in S2) the ghost
// variables of the region are built without the .offset/.size components:
// ref_store never writes them and ref_load never updates the .offset/.size of
// the loaded reference, which keeps the values of its PREVIOUS object.
//
// needs region.skip_unknown_regions=false and region.is_dereferenceable=true.
#include "../tests/common.hpp"
using namespace crab::cfg;
using namespace crab::cfg_impl;
using namespace crab::domain_impl;
using namespace ikos;
using namespace crab::domains;
typedef z_rgn_bool_int_t Dom;

static bool definitely_true(Dom inv, const z_var &b) {
  inv.assume_bool(b, true /*negated*/);
  return inv.is_bottom();
}

// *r1 := 5 (twice); [state optionally copied here]; a := make_ref(RA,4);
// *r2 := a (twice); q := make_ref(RB,16); q := *r2;
// b := is_dereferenceable(RA, q, 16)     concretely q == a, 4 bytes => false
static bool run(bool with_copy) {
  variable_factory_t vfac;
  crab::tag_manager as_man;
  z_var_or_cst_t size4(z_number(4), crab::variable_type(crab::INT_TYPE, 32));
  z_var_or_cst_t size16(z_number(16), crab::variable_type(crab::INT_TYPE, 32));
  z_var_or_cst_t five(z_number(5), crab::variable_type(crab::INT_TYPE, 32));
  z_var U(vfac["U"], crab::REG_UNKNOWN_TYPE, 32);
  z_var RA(vfac["RA"], crab::REG_INT_TYPE, 32);
  z_var RB(vfac["RB"], crab::REG_INT_TYPE, 32);
  z_var r1(vfac["r1"], crab::REF_TYPE, 32);
  z_var r2(vfac["r2"], crab::REF_TYPE, 32);
  z_var a(vfac["a"], crab::REF_TYPE, 32);
  z_var q(vfac["q"], crab::REF_TYPE, 32);
  z_var b(vfac["b"], crab::BOOL_TYPE, 1);

  Dom S1;
  S1.region_init(U);
  S1.region_init(RA);
  S1.region_init(RB);
  S1.ref_make(r1, U, size4, as_man.mk_tag());
  S1.ref_make(r2, U, size4, as_man.mk_tag());
  S1.ref_store(r1, U, five);
  S1.ref_store(r1, U, five); // dynamic type of U is region(int32)

  Dom S2_copy(S1);
  Dom &S2 = with_copy ? S2_copy : S1;

  S2.ref_make(a, RA, size4, as_man.mk_tag());
  S2.ref_store(r2, U, z_var_or_cst_t(a)); // U re-interpreted as region(ref)
  S2.ref_store(r2, U, z_var_or_cst_t(a));
  S2.ref_make(q, RB, size16, as_man.mk_tag());
  S2.ref_load(r2, U, q); // q == a
  S2.intrinsic("is_dereferenceable",
               {z_var_or_cst_t(RA), z_var_or_cst_t(q), size16}, {b});
  crab::outs() << (with_copy ? "copied state : " : "same object  : ") << S2
               << "\n";
  return definitely_true(S2, b);
}

int main() {
  region_domain_params p(true, false, false, true /*is_dereferenceable*/,
                         false /*skip_unknown_regions*/);
  crab_domain_params_man::get().update_params(p);
  crab::CrabEnableWarningMsg(false);
  bool r0 = run(false);
  bool r1 = run(true);
  crab::outs() << "is_dereferenceable(q,16) proven: same object=" << r0
               << " copied state=" << r1 << "\n";
  if (r1 || r0) {
    crab::outs() << "VIOLATION: q points to a 4-byte object but 16 bytes are "
                    "reported dereferenceable\n";
    return 1;
  }
  return 0;
}
