// F44 (C05): build with
//   g++ -w -std=c++11 -O1 -I/repo/include -I/repo/_build/include -I/repo/tests demo.cpp /repo/_build/lib/libCrab.a -lgmp
// dis_interval widening kept (joined) every middle interval of both arguments and only widened the two extreme
// intervals: a chain whose MIDDLE disjunct grows never becomes stationary (rationals), or only after as many steps as
// there are integers between the extremes.  Reported by the round-2 seeding sub-agent for C05 on the unchanged tree.
//  part 1: x0 = {0} | {5} | {10^6};  x_{k+1} = x_k || ({0} | [5, ub_k] | {10^6}) with ub_k growing: stationary?
//  part 2: (discovery aid) x || y is an upper bound of x and y for all normalized lists over [-3,3] with <= 3 disjuncts.
#include "crab_lang.hpp"
#include "crab_dom.hpp"
using namespace crab::domain_impl;
using namespace ikos;
static int bad = 0;

template <typename N> static void chain(const char *name, bool rational) {
  using di_t = crab::domains::dis_interval<N>;
  using itv = ikos::interval<N>;
  di_t x = di_t(itv(N(0))) | di_t(itv(N(5))) | di_t(itv(N(1000000)));
  unsigned k, stable_at = 0;
  N ub(5), half(1);
  for (k = 1; k <= 2000; ++k) {
    if (rational) { half = half / N(2); ub = N(100) - half; } else { ub = ub + N(1); }
    di_t y = di_t(itv(N(0))) | di_t(itv(N(5), ub)) | di_t(itv(N(1000000)));
    if (y <= x) { stable_at = k; break; }
    x = x || y;
  }
  crab::outs() << name << ": ";
  if (stable_at) crab::outs() << "stationary at step " << stable_at << "\n";
  else { crab::outs() << "NOT stationary after " << (k - 1) << " widening steps\n"; bad++; }
}

static void upper_bound() {
  using di_t = crab::domains::dis_interval<z_number>;
  using itv = ikos::interval<z_number>;
  std::vector<di_t> all;
  std::vector<itv> is;
  for (int l = -3; l <= 3; l++) for (int u = l; u <= 3; u++) is.push_back(itv(z_number(l), z_number(u)));
  for (auto &a : is) { all.push_back(di_t(a));
    for (auto &b : is) { all.push_back(di_t(a) | di_t(b));
      for (auto &c : is) all.push_back(di_t(a) | di_t(b) | di_t(c)); } }
  unsigned long n = 0, bad_ub = 0;
  for (size_t i = 0; i < all.size(); i += 7) for (size_t j = 0; j < all.size(); j += 5) {
    di_t w = all[i] || all[j]; n++;
    if (!(all[i] <= w) || !(all[j] <= w)) { if (bad_ub++ < 3) crab::outs() << "  not an upper bound: " << all[i] << " || " << all[j] << " = " << w << "\n"; }
  }
  crab::outs() << "upper-bound sweep: " << n << " pairs, " << bad_ub << " failures\n";
  if (bad_ub) bad++;
}

int main() {
  chain<z_number>("dis_interval<z_number>", false);
  chain<q_number>("dis_interval<q_number>", true);
  upper_bound();
  return bad ? 1 : 0;
}
