// F25 (C08): sign<z_number>::operator/ treats integer division like multiplication: (>0)/(>0) = (>0), but 1/2 = 0
// build: g++ -std=c++11 -O1 -I/repo/include -I/repo/_build/include demo.cpp /repo/lib/sign.cpp /repo/_build/lib/libCrab.a -lgmp
#include <crab/domains/sign.hpp>
#include <crab/numbers/bignums.hpp>
#include <crab/support/os.hpp>
using namespace crab::domains; using namespace ikos;
typedef sign<z_number> sign_t;
static sign_t abs_of(int v) { return sign_t(z_number(v)); }
int main() {
  int bad = 0;
  sign_t cls[] = {sign_t::mk_less_than_zero(), sign_t::mk_greater_than_zero(), sign_t::mk_equal_zero(), sign_t::mk_not_equal_zero(),
                  sign_t::mk_greater_or_equal_than_zero(), sign_t::mk_less_or_equal_than_zero(), sign_t::top()};
  for (auto &a : cls) for (auto &b : cls) {
    sign_t r = a / b;
    for (int x = -4; x <= 4; x++) for (int y = -4; y <= 4; y++) {
      if (y == 0) continue;
      if (!(abs_of(x) <= a) || !(abs_of(y) <= b)) continue;
      int q = x / y;   // truncating, like z_number
      if (!(abs_of(q) <= r)) { if (bad < 5) crab::outs() << a << " / " << b << " = " << r << " misses " << x << "/" << y << "=" << q << "\n"; bad++; }
    }
  }
  crab::outs() << bad << " unsound results\n";
  return bad ? 1 : 0;
}
