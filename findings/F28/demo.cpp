// F28 (C19/C04): discrete_pair_domain (missing key = bottom) drops a key whose joined value is top, which turns it into bottom:
// a <= a | b fails.   build: g++ -std=c++11 -O1 -I/repo/include -I/repo/_build/include -I/repo/tests demo.cpp /repo/_build/lib/libCrab.a -lgmp
#include "crab_lang.hpp"
#include <crab/domains/discrete_domains.hpp>
using namespace crab; using namespace crab::cfg_impl; using namespace ikos;
typedef ikos::discrete_domain<z_var> set_t;
typedef crab::domains::discrete_pair_domain<z_var, set_t> map_t;
int main() {
  variable_factory_t vfac;
  z_var x(vfac["x"], crab::INT_TYPE, 32), y(vfac["y"], crab::INT_TYPE, 32);
  map_t a, b;
  a.set(x, set_t(y));          // x -> {y}
  b.set(x, set_t::top());      // x -> top
  map_t j = a | b;
  crab::outs() << "a = " << a << "   b = " << b << "   a|b = " << j << "\n";
  int bad = 0;
  if (!(a <= j)) { crab::outs() << "WRONG: a <= a|b does not hold\n"; bad++; }
  if (!(b <= j)) { crab::outs() << "WRONG: b <= a|b does not hold\n"; bad++; }
  return bad ? 1 : 0;
}
