// Behaviour of the UNCHANGED tree (independent of _seed/patch.diff).
//
// region_domain::ref_assume(p == q) and assign_bool_ref_cst(b, p == q) decide
// "p and q cannot be equal" whenever both have a non-empty set of allocation
// sites and the two sets are disjoint.  Allocation-site sets say nothing about
// NULL: a reference that may be null *or* point to site s1 has the set {s1}.
// So two maybe-null references with disjoint site sets are declared different
// although both can be null in the same concrete execution.
//
//   RR1, RR2 : regions of references, each with one cell (pp1 / pp2)
//   branch A : *pp1 := NULL; *pp2 := NULL
//   branch B : *pp1 := x1 (site 1); *pp2 := x2 (site 2)
//   join; p := *pp1; q := *pp2;
//   assume(p == q)            -> concrete run through A satisfies it (NULL==NULL)
//   b := (p == q); assume(!b) -> concrete run through A violates !b
//
// Exit status 1 when the violation is observed.

#include "crab_lang.hpp"
#include "crab_dom.hpp"

#include <crab/domains/abstract_domain_params.hpp>
#include <iostream>

using namespace crab::cfg_impl;
using namespace crab::domain_impl;
using namespace crab::domains;

int main() {
  crab::CrabEnableWarningMsg(false);
  region_domain_params params(true /*allocation_sites*/, false, false, false,
                              true);
  crab_domain_params_man::get().update_params(params);

  using dom_t = z_rgn_bool_int_t;
  using ref_cst_t = typename dom_t::reference_constraint_t;
  using var_or_cst_t = typename dom_t::variable_or_constant_t;

  variable_factory_t vfac;
  crab::tag_manager as_man;
  z_var R(vfac["R"], crab::REG_INT_TYPE, 32);
  z_var RR1(vfac["RR1"], crab::REG_REF_TYPE, 32);
  z_var RR2(vfac["RR2"], crab::REG_REF_TYPE, 32);
  z_var pp1(vfac["pp1"], crab::REF_TYPE), pp2(vfac["pp2"], crab::REF_TYPE);
  z_var x1(vfac["x1"], crab::REF_TYPE), x2(vfac["x2"], crab::REF_TYPE);
  z_var p(vfac["p"], crab::REF_TYPE), q(vfac["q"], crab::REF_TYPE);
  z_var b(vfac["b"], crab::BOOL_TYPE, 1);
  var_or_cst_t size4(z_number(4), crab::variable_type(crab::INT_TYPE, 32));

  dom_t s;
  s.region_init(R);
  s.region_init(RR1);
  s.region_init(RR2);
  s.ref_make(pp1, RR1, size4, as_man.mk_tag());
  s.ref_make(pp2, RR2, size4, as_man.mk_tag());
  s.ref_make(x1, R, size4, as_man.mk_tag());
  s.ref_make(x2, R, size4, as_man.mk_tag());

  dom_t sA(s), sB(s);
  sA.ref_store(pp1, RR1, var_or_cst_t::make_reference_null());
  sA.ref_store(pp2, RR2, var_or_cst_t::make_reference_null());
  sB.ref_store(pp1, RR1, x1);
  sB.ref_store(pp2, RR2, x2);

  dom_t j = sA | sB;
  j.ref_load(pp1, RR1, p);
  j.ref_load(pp2, RR2, q);

  int bad = 0;

  std::cout << "is_null_ref(p) definite? "
            << (j.is_null_ref(p).is_top() ? "no (may be null)" : "yes")
            << "\n";

  dom_t t1(j);
  t1.ref_assume(ref_cst_t::mk_eq(p, q));
  if (t1.is_bottom()) {
    std::cout << "UNSOUND: assume(p == q) is bottom, but the execution through "
                 "branch A has p == q == NULL\n";
    bad = 1;
  }

  dom_t t2(j);
  t2.assign_bool_ref_cst(b, ref_cst_t::mk_eq(p, q));
  t2.assume_bool(b, false /*b is true*/);
  if (t2.is_bottom()) {
    std::cout << "UNSOUND: b := (p == q) is definitely false, but the execution "
                 "through branch A makes it true\n";
    bad = 1;
  }

  if (!bad) {
    std::cout << "OK\n";
  }
  return bad;
}
