// F69 (C14) KNOWN FINDING, not repaired: g++ -w -std=c++11 -O1 -I/repo/include -I/repo/_build/include -I/repo/tests demo.cpp /repo/_build/lib/libCrab.a -lgmp
// array_adaptive_domain smashes an array by storing its TRACKED cells into the summary, the first one with a STRONG update.
// Cells that are not tracked (the array was an input, was havocked, or a store over an unknown range forgot it) hold
// unknown values, but the summary then claims to describe every cell:
//   S1: A unknown;                A[24] := 1; A[i] := 2 (i in [0,16]); x := A[20]   -> x in [1,2]
//   S2: A := -3 everywhere; havoc(A); A[24] := 1; A[i] := 2; x := A[20]            -> x in [1,2]  (A[20] is arbitrary)
// Found by the discovery aid findings/aids/arrfuzz.cpp (domain aaint, seed 31368).
#include "crab_lang.hpp"
#include "crab_dom.hpp"
using namespace crab::cfg_impl; using namespace crab::domain_impl; using namespace ikos;
int main() {
  typedef z_aa_int_t D; variable_factory_t vfac; crab::CrabEnableWarningMsg(false);
  z_var A(vfac["A"], crab::ARR_INT_TYPE, 32), i(vfac["i"], crab::INT_TYPE, 32), x(vfac["x"], crab::INT_TYPE, 32);
  int bad = 0; z_number seven(7);
  for (int scenario = 1; scenario <= 2; scenario++) {
    D d; d += (i >= z_number(0)); d += (i <= z_number(16));
    if (scenario == 2) { d.array_init(A, z_number(4), z_number(0), z_number(28), z_number(-3)); d -= A; }
    d.array_store(A, z_number(4), z_number(24), z_number(1), false);
    d.array_store(A, z_number(4), z_lin_exp_t(i), z_number(2), false);
    d.array_load(x, A, z_number(4), z_number(20));
    interval<z_number> ix = d[x];
    crab::outs() << "S" << scenario << ": x := A[20] gives " << ix << "\n";
    if (!ix[seven]) { crab::outs() << "  UNSOUND: A[20] was never constrained, 7 is a possible content\n"; bad++; }
  }
  return bad ? 1 : 0;
}
