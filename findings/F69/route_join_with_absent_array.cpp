// Behaviour of the UNCHANGED tree (not the seeded change).
//
//   then : B[0] := 1; B[4] := 7;       else : skip;   (B is not touched)
//   merge: B[0] := 1;
//          i := nondet; assume(0 <= i <= 4);
//          B[i] := 1;                   // symbolic index: B is smashed
//          x := B[4];
//
// The execution through "then" with i = 0 reads x = 7 (all the cells it
// reads were written before). array_adaptive's join drops the array state
// (offset map) of an array that is known in only one of the two operands
// (array_state_map_t::join_op::default_is_absorbing() == true), so after
// the join the domain has forgotten that cell B[4] was ever created. The
// later smashing only summarizes the cells it knows about (B[0]) and
// x := B[4] yields [1,1].
//
// exit status 1 when the violation is observed.
#include "crab_lang.hpp"
#include "crab_dom.hpp"

using namespace crab::cfg_impl;
using namespace crab::domain_impl;
using namespace ikos;

int main() {
  variable_factory_t vfac;
  z_var b(vfac["B"], crab::ARR_INT_TYPE);
  z_var i(vfac["i"], crab::INT_TYPE, 32);
  z_var x(vfac["x"], crab::INT_TYPE, 32);
  z_var y(vfac["y"], crab::INT_TYPE, 32);
  const unsigned sz = 4;

  z_aa_int_t left, right;
  left.array_store(b, sz, 0, 1, true);
  left.array_store(b, sz, 4, 7, true);
  right.assign(y, 0); // so that right is not top (top | anything is top)
  left.assign(y, 1);

  z_aa_int_t s = left | right;
  s.array_store(b, sz, 0, 1, true);
  s -= i;
  s += (z_lin_exp_t(i) >= z_number(0));
  s += (z_lin_exp_t(i) <= z_number(4));
  s.array_store(b, sz, i, 1, false);
  s.array_load(x, b, sz, 4);

  z_interval_t itv = s[x];
  z_interval_t seven{z_number(7)};
  crab::outs() << "x=" << itv << "\n";
  if (s.is_bottom() || !(seven <= itv)) {
    crab::outs() << "VIOLATION: 7 is readable from B[4] but is not in x\n";
    return 1;
  }
  crab::outs() << "ok\n";
  return 0;
}
