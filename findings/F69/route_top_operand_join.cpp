// Behaviour of the UNCHANGED tree (not the seeded change).
//
//   then : A[0] := y;   (y unconstrained: the abstract state stays "top" for
//                        the interval base domain, but A has a cell [0..3])
//   else : A[0] := 1; A[4] := 7;
//   merge: A[0] := 1;
//          i := nondet; assume(0 <= i <= 4);
//          A[i] := 1;                   // symbolic index: A is smashed
//          x := A[4];
//
// The execution through "else" with i = 0 reads x = 7. The join returns the
// "then" operand unchanged because is_top() only looks at the base domain
// ("other.is_bottom() || is_top() -> return *this"), so the offset map of the
// result does not know the cell [4..7] of the other operand. Smashing then
// summarizes only A[0] and x := A[4] yields [1,1].
//
// exit status 1 when the violation is observed.
#include "crab_lang.hpp"
#include "crab_dom.hpp"

using namespace crab::cfg_impl;
using namespace crab::domain_impl;
using namespace ikos;

int main() {
  variable_factory_t vfac;
  z_var a(vfac["A"], crab::ARR_INT_TYPE);
  z_var i(vfac["i"], crab::INT_TYPE, 32);
  z_var x(vfac["x"], crab::INT_TYPE, 32);
  z_var y(vfac["y"], crab::INT_TYPE, 32);
  const unsigned sz = 4;

  z_aa_int_t left, right;
  left.array_store(a, sz, 0, y, false);
  right.array_store(a, sz, 0, 1, false);
  right.array_store(a, sz, 4, 7, false);

  z_aa_int_t s = left | right;
  s.array_store(a, sz, 0, 1, false);
  s -= i;
  s += (z_lin_exp_t(i) >= z_number(0));
  s += (z_lin_exp_t(i) <= z_number(4));
  s.array_store(a, sz, i, 1, false);
  s.array_load(x, a, sz, 4);

  z_interval_t itv = s[x];
  z_interval_t seven{z_number(7)};
  crab::outs() << "x=" << itv << "\n";
  if (s.is_bottom() || !(seven <= itv)) {
    crab::outs() << "VIOLATION: 7 is readable from A[4] but is not in x\n";
    return 1;
  }
  crab::outs() << "ok\n";
  return 0;
}
