// Behaviour of the UNCHANGED tree that already violates C14 (not used as the
// seeded change).
//
// array_adaptive::array_store_range() gives up when the range has more than
// array_adaptive.max_array_size elements and calls forget_array(), which
// deletes the array's cells.  A deleted cell is not the same as a cell with
// unknown contents: when the array is smashed later, only the cells that
// still exist are folded into the summary, so the words whose cells were
// deleted are not represented in the summary at all.
//
//    array_init(A, 4 bytes, [0..400], 0)   // 101 words, > 64: forget_array(A)
//    A[0] := 5
//    assume(0 <= i <= 8);  A[i] := 1       // smashes A: summary = {5} U {1}
//    x := A[8]                             // concrete: 0 or 1 (0 when i != 8)
//
// Expected: x contains 0.   Observed on the unchanged tree: x = [1, 5].
// Default array_adaptive parameters.  Exit status 1 when the violation is
// observed.
#include "crab_lang.hpp"
#include "crab_dom.hpp"

using namespace crab::cfg_impl;
using namespace crab::domain_impl;
using namespace crab::domains;
using namespace ikos;

int main() {
  variable_factory_t vfac;
  z_var a(vfac["A"], crab::ARR_INT_TYPE);
  z_var i(vfac["i"], crab::INT_TYPE, 32), x(vfac["x"], crab::INT_TYPE, 32);
  z_aa_int_t d;
  d.array_init(a, 4, 0, 400, 0);
  d.array_store(a, 4, 0, 5, false);
  d += (z_lin_exp_t(i) >= 0);
  d += (z_lin_exp_t(i) <= 8);
  d.array_store(a, 4, i, 1, false);
  d.array_load(x, a, 4, 8);
  z_interval_t res = d[x];
  crab::outs() << "x = " << res << " (concrete executions with i != 8 read 0)\n";
  if (d.is_bottom() || !(z_interval_t(z_number(0)) <= res)) {
    crab::outs() << "VIOLATION: 0 is not in the abstract value of x\n";
    return 1;
  }
  crab::outs() << "ok\n";
  return 0;
}
