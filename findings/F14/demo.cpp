// F14 (C09, KNOWN, not repaired): build with  g++ -std=c++11 -O1 -I/repo/include -I/repo/_build/include -I/repo/tests demo.cpp /repo/_build/lib/libCrab.a -lgmp
// observed on the pinned tree: max_call_contexts=1 -> r1 = [0,0] although the concrete value is -1 (both exact and approximate reuse); unbounded, 3, 2 -> ok.
// candidate: a calling context obtained by JOINING two contexts (pre1|pre2 -> post1|post2) is reused for any entry d <= pre1|pre2.
//   foo(x) { if (x == 1) z := -1 else z := 0; return z }
//   main: r0 = foo(0); r2 = foo(2); r5 = foo(5); r1 = foo(1);   // concrete r1 = -1
#include "crab_lang.hpp"
#include <crab/analysis/inter/top_down_inter_analyzer.hpp>
#include <crab/cg/cg_bgl.hpp>
#include <crab/domains/intervals.hpp>
#include <climits>
#include <iostream>
using namespace crab; using namespace crab::cfg; using namespace crab::cfg_impl; using namespace crab::cg; using namespace crab::analyzer; using namespace crab::domains;
using ikos::z_number;
using callgraph_t = call_graph<z_cfg_ref_t>;
using params_t = inter_analyzer_parameters<callgraph_t>;
using dom_t = ikos::interval_domain<z_number, varname_t>;
using interval_t = ikos::interval<z_number>;
static z_cfg_t *mk_foo(variable_factory_t &vfac) {
  z_var x(vfac["x"], crab::INT_TYPE, 32), z(vfac["z"], crab::INT_TYPE, 32);
  function_decl<z_number, varname_t> decl("foo", {x}, {z});
  z_cfg_t *cfg = new z_cfg_t("entry", "exit", decl);
  z_basic_block_t &entry = cfg->insert("entry"); z_basic_block_t &t = cfg->insert("then"); z_basic_block_t &e1 = cfg->insert("lt");
  z_basic_block_t &e2 = cfg->insert("gt"); z_basic_block_t &exit = cfg->insert("exit");
  entry >> t; entry >> e1; entry >> e2; t >> exit; e1 >> exit; e2 >> exit;
  t.assume(z_lin_exp_t(x) == z_lin_exp_t(z_number(1))); t.assign(z, z_number(-1));
  e1.assume(z_lin_exp_t(x) <= z_lin_exp_t(z_number(0))); e1.assign(z, z_number(0));
  e2.assume(z_lin_exp_t(x) >= z_lin_exp_t(z_number(2))); e2.assign(z, z_number(0));
  return cfg;
}
static z_cfg_t *mk_main(variable_factory_t &vfac) {
  function_decl<z_number, varname_t> decl("main", {}, {});
  z_cfg_t *cfg = new z_cfg_t("entry", "exit", decl);
  z_basic_block_t &entry = cfg->insert("entry"); z_basic_block_t &exit = cfg->insert("exit");
  entry >> exit;
  int vals[] = {0, 2, 5, 1};
  for (int v : vals) {
    z_var a(vfac["a" + std::to_string(v)], crab::INT_TYPE, 32), r(vfac["r" + std::to_string(v)], crab::INT_TYPE, 32);
    entry.assign(a, z_number(v));
    entry.callsite("foo", {r}, {a});
  }
  return cfg;
}
int main() {
  crab::CrabEnableWarningMsg(false);
  variable_factory_t vfac;
  z_cfg_t *foo_cfg = mk_foo(vfac); z_cfg_t *main_cfg = mk_main(vfac);
  std::vector<z_cfg_ref_t> cfgs({*foo_cfg, *main_cfg});
  callgraph_t cg(cfgs);
  int bad = 0;
  for (unsigned b : {UINT_MAX, 3u, 2u, 1u}) for (int exact = 1; exact >= 0; --exact) {
    params_t params; params.run_checker = false; params.max_call_contexts = b; params.exact_summary_reuse = exact;
    dom_t init;
    top_down_inter_analyzer<callgraph_t, dom_t> analyzer(cg, init, params);
    analyzer.run(init);
    z_cfg_ref_t main_ref(*main_cfg);
    dom_t inv = analyzer.get_post(main_ref, "exit");
    z_var r1(vfac["r1"], crab::INT_TYPE, 32);
    interval_t itv = inv[r1];
    bool ok = !inv.is_bottom() && interval_t(z_number(-1)) <= itv;
    crab::outs() << (ok ? "ok  " : "FAIL") << " max_call_contexts=" << (b == UINT_MAX ? -1 : (int)b) << " exact_reuse=" << exact << ": r1 = " << itv << " (concrete -1)\n";
    if (!ok) bad++;
  }
  return bad ? 1 : 0;
}
