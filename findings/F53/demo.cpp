// F53 (C10): g++ -w -std=c++11 -O1 -I/repo/include -I/repo/_build/include -I/repo/tests demo.cpp /repo/_build/lib/libCrab.a -lgmp ; prints FAIL before fix bd.., PASS after (written by the round-3 seeding sub-agent for C10, behaviour of the unchanged tree)
// Behaviour of the UNCHANGED tree (not the seeded change).
//
// bottom_up_inter_analyzer::run(init): when the first SCC of the call graph in
// top-down order (the "root") is recursive, the root function is analyzed
// starting from `init` only; the calling contexts of its recursive calls are
// stored in the call-context table but never used for the root (the `is_root`
// branch skips get_call_ctx, and the "top" context inserted for recursive SCCs
// is ignored as well).  With a non-top `init` the reported invariants of the
// root then exclude states reached through the recursive calls.
//
//   count(n) -> r            (entry function, no other callers)
//     entry: goto rec | base
//     rec:   assume(n <= 9); m := n + 1; t := count(m); r := t;
//     base:  assume(n >= 10); r := n;
//     exit:
//
// run(init) with init = {n = 0}.  Concretely the recursive activations reach
// count:entry with n = 1..10 and count:base with n = 10.
//
// exit status 1 if the invariants exclude those states, 0 otherwise.
#include "crab_dom.hpp"
#include "crab_lang.hpp"

#include <crab/analysis/graphs/sccg_bgl.hpp>
#include <crab/analysis/inter/bottom_up_inter_analyzer.hpp>
#include <crab/analysis/inter/inter_params.hpp>
#include <crab/cg/cg_bgl.hpp>

using namespace crab::analyzer;
using namespace crab::cfg;
using namespace crab::cfg_impl;
using namespace crab::domain_impl;
using namespace crab::cg;

int main() {
  variable_factory_t vfac;
  z_var n(vfac["n"], crab::INT_TYPE, 32);
  z_var m(vfac["m"], crab::INT_TYPE, 32);
  z_var t(vfac["t"], crab::INT_TYPE, 32);
  z_var r(vfac["r"], crab::INT_TYPE, 32);

  function_decl<z_number, varname_t> decl("count", {n}, {r});
  z_cfg_t cfg("entry", "exit", decl);
  z_basic_block_t &entry = cfg.insert("entry");
  z_basic_block_t &rec = cfg.insert("rec");
  z_basic_block_t &base = cfg.insert("base");
  z_basic_block_t &exit = cfg.insert("exit");
  entry >> rec;
  entry >> base;
  rec >> exit;
  base >> exit;
  rec.assume(n <= 9);
  rec.add(m, n, 1);
  rec.callsite("count", {t}, {m});
  rec.assign(r, t);
  base.assume(n >= 10);
  base.assign(r, n);

  using callgraph_t = call_graph<z_cfg_ref_t>;
  std::vector<z_cfg_ref_t> cfgs;
  cfgs.push_back(cfg);
  callgraph_t cg(cfgs);

  using analyzer_t = bottom_up_inter_analyzer<callgraph_t, z_dbm_domain_t,
                                              z_interval_domain_t>;
  z_dbm_domain_t bu_top;
  z_interval_domain_t td_top;
  analyzer_t an(cg, td_top, bu_top);
  z_interval_domain_t init;
  init.assign(n, z_number(0));
  an.run(init);

  z_cfg_ref_t ref(cfg);
  auto pre_entry = an.get_pre(ref, "entry");
  auto post_base = an.get_post(ref, "base");
  crab::outs() << "count:entry pre  = " << pre_entry << "\n";
  crab::outs() << "count:base  post = " << post_base << "\n";
  z_interval_domain_t::interval_t five(z_number(5));
  bool bad = false;
  if (pre_entry.is_bottom() || !(five <= pre_entry[n])) {
    crab::outs() << "UNSOUND: n=5 reaches count:entry (5th recursive call)\n";
    bad = true;
  }
  if (post_base.is_bottom()) {
    crab::outs() << "UNSOUND: count:base is reached with n=10 but is bottom\n";
    bad = true;
  }
  crab::outs() << (bad ? "FAIL\n" : "PASS\n");
  return bad ? 1 : 0;
}
