// Behaviour of the UNCHANGED tree (independent of _seed/patch.diff).
//
// split_dbm_domain::rename(from, to) accepts a target variable that already
// has a vertex as long as that vertex carries no edge ("we are ok as long as
// it's unconstrained").  Such a vertex is left behind e.g. by forgetting the
// only variable it was related to.  In that case
//     vert_map.insert(vmap_elt_t(new_v, dim))
// is a no-op (flat_map::insert does not overwrite), so the target keeps
// pointing at its old, edge-less vertex while rev_map[dim] is renamed: the
// value prints "y -> [-oo, 7]" but every query that goes through vert_map
// (operator[], entails, join, meet ...) sees y as unconstrained.
// Exit status 1 when the loss is observed.
#include <crab/config.h>
#include <crab/domains/split_dbm.hpp>
#include <crab/numbers/bignums.hpp>
#include <crab/types/varname_factory.hpp>

#include <algorithm>
#include <climits>
#include <cstdio>
#include <string>
#include <vector>

using namespace crab;
using namespace crab::domains;
using namespace ikos;

using variable_factory_t = var_factory_impl::str_variable_factory;
using varname_t = typename variable_factory_t::varname_t;
using z_var = variable<z_number, varname_t>;
using z_lin_exp_t = linear_expression<z_number, varname_t>;
using z_lin_cst_t = linear_constraint<z_number, varname_t>;
using z_interval_t = interval<z_number>;
using graph_t = DBM_impl::DefaultParams<z_number, DBM_impl::GraphRep::adapt_ss>;
using zones_t = split_dbm_domain<z_number, varname_t, graph_t>;

namespace crab {
template <> class variable_name_traits<std::string> {
public:
  static std::string to_string(std::string varname) { return varname; }
};
} // namespace crab


int main() {
  variable_factory_t vfac;
  z_var x(vfac["x"], crab::INT_TYPE, 32);
  z_var y(vfac["y"], crab::INT_TYPE, 32);
  z_var z(vfac["z"], crab::INT_TYPE, 32);

  zones_t d;
  d += z_lin_cst_t(z_lin_exp_t(x) - z_lin_exp_t(y) <= z_number(1));
  d += z_lin_cst_t(z_lin_exp_t(z) <= z_number(7));
  d -= x; // y keeps a vertex without edges
  crab::outs() << "before rename z->y: " << d << "\n";
  d.rename({z}, {y});
  z_interval_t iy = d[y];
  crab::outs() << "after  rename z->y: " << d << "   d[y] = " << iy << "\n";
  bool ok = d.entails(z_lin_cst_t(z_lin_exp_t(y) <= z_number(7)));
  if (!ok || iy.ub().is_infinite()) {
    crab::outs() << "VIOLATION: y <= 7 was lost by rename\n";
    return 1;
  }
  crab::outs() << "ok\n";
  return 0;
}
