// Behaviour of the UNCHANGED tree (independent of _seed/patch.diff).
//
// split_dbm_domain::close_over_edge(ii,jj) combines every predecessor s of ii
// with every successor d of jj without excluding s == d (split_oct's
// close_over_edge has "if (se == de) continue;").  When the new edge closes a
// cycle s -> ii -> jj -> s, the self-loop s - s <= k is stored in the graph.
// The loop is a tautology, but it is a real edge: after every other variable
// is forgotten the value is semantically top, yet is_top() is false, the
// constraint system is {s-s<=3}, and the inclusion test against it fails for
// a value that is included in it (operator<= looks for an s->s edge or for
// both bounds of s in the left operand).  So forget does not give the exact
// (= top) value as far as <= / is_top can tell.
//
// Exit status 1 when the behaviour is observed, 0 otherwise.
#include "crab_lang.hpp"
#include "crab_dom.hpp"
#include <cstdio>
using namespace crab::cfg_impl;
using namespace crab::domain_impl;
using namespace ikos;

int main() {
  variable_factory_t vfac;
  z_var s(vfac["s"], crab::INT_TYPE, 32), i(vfac["i"], crab::INT_TYPE, 32),
      j(vfac["j"], crab::INT_TYPE, 32);
  int bad = 0;
  z_sdbm_domain_t d;
  d += z_lin_cst_t(z_lin_exp_t(i) - z_lin_exp_t(s) <= z_number(1));
  d += z_lin_cst_t(z_lin_exp_t(s) - z_lin_exp_t(j) <= z_number(1));
  d += z_lin_cst_t(z_lin_exp_t(j) - z_lin_exp_t(i) <= z_number(1));
  crab::outs() << "d = " << d << "\n";
  z_sdbm_domain_t e(d);
  e -= i;
  e -= j;
  crab::outs() << "forget i, j: " << e << "\n";
  if (!e.is_top()) {
    std::printf("OBSERVED: no constraint is left but is_top() is false\n");
    bad = 1;
  }
  z_sdbm_domain_t l;
  l += z_lin_cst_t(z_lin_exp_t(s) - z_lin_exp_t(j) <= z_number(1));
  if (!(l <= e)) {
    std::printf("OBSERVED: {s-j<=1} <= (value without constraints) is false\n");
    bad = 1;
  }
  if (!bad)
    std::printf("OK\n");
  return bad;
}
