// Behaviour of the UNCHANGED tree that (arguably) already violates property
// C20 ("the tautology/contradiction tests are exact for constant
// constraints").
//
// linear_expression(Number n, variable_t x) -- reachable through the public
// operator*(Number, variable) / operator*(variable, Number) /
// operator*(int64_t, variable) -- stores the term even when n == 0.  The
// resulting expression denotes a constant but is_constant() is false and
// size() is 1, so a constraint built from it is neither recognised as a
// tautology nor as a contradiction, although it has no free variable in
// the mathematical sense.  (Every other way of producing a term -- add(),
// operator*(Number) on expressions -- filters zero coefficients.)
//
// Exit status 1 when the violation is observed, 0 otherwise.

#include <crab/numbers/bignums.hpp>
#include <crab/types/linear_constraints.hpp>
#include <crab/types/variable.hpp>
#include <crab/types/varname_factory.hpp>
#include <cstdio>
#include <string>

using namespace ikos;

// Client-side trait required by the string variable factory (see
// tests/crab_lang.hpp).
namespace crab {
template <> class variable_name_traits<std::string> {
public:
  static std::string to_string(std::string varname) { return varname; }
};
} // namespace crab
using variable_factory_t = crab::var_factory_impl::str_variable_factory;
using varname_t = variable_factory_t::varname_t;
using z_var = crab::variable<z_number, varname_t>;
using z_lin_exp_t = linear_expression<z_number, varname_t>;
using z_lin_cst_t = linear_constraint<z_number, varname_t>;

int main() {
  variable_factory_t vfac;
  z_var x(vfac["x"], crab::INT_TYPE, 32);
  int bad = 0;

  z_lin_exp_t e = z_number(0) * x; // denotes the constant 0
  std::printf("0*x: is_constant=%d size=%u\n", (int)e.is_constant(),
              (unsigned)e.size());
  if (!e.is_constant())
    ++bad;

  z_lin_cst_t unsat(e <= z_number(-1)); // 0 <= -1 : no solution
  z_lin_cst_t valid(e <= z_number(1));  // 0 <= 1  : every valuation
  std::printf("(0*x <= -1).is_contradiction() = %d (expected 1)\n",
              (int)unsat.is_contradiction());
  std::printf("(0*x <= 1).is_tautology()      = %d (expected 1)\n",
              (int)valid.is_tautology());
  if (!unsat.is_contradiction())
    ++bad;
  if (!valid.is_tautology())
    ++bad;

  // the same constant reached through sums is recognised:
  z_lin_exp_t f = z_lin_exp_t(x) - x;
  std::printf("x-x: is_constant=%d\n", (int)f.is_constant());

  if (bad) {
    std::printf("VIOLATION observed in unchanged tree (%d checks)\n", bad);
    return 1;
  }
  std::printf("no violation observed\n");
  return 0;
}
