// UNCHANGED TREE (no patch needed), related to C03 only indirectly (it is the
// inclusion test, which fixpoint iterators use to decide convergence):
// value_partitioning_domain::operator<= joins the partitions of the right
// operand that a left partition overlaps and tests inclusion in the join.  The
// join contains states that are in none of the partitions, so A <= B can be
// answered "true" although gamma(A) is not included in gamma(B).
//
//   A = { x in [0,6] }           B = { x in [0,1] } | { x in [5,6] }
//   A <= B is answered true although x=3 is in A and not in B.
//
// Exit status 1 when the violation is observed, 0 otherwise.
#include "crab_lang.hpp"
#include "crab_dom.hpp"
#include <crab/domains/value_partitioning_domain.hpp>

using namespace crab::cfg_impl;
using namespace crab::domain_impl;
using namespace crab::domains;
using dom_t = value_partitioning_domain<z_interval_domain_t>;

static dom_t slice(const dom_t &start, const z_var &x, long lo, long hi) {
  dom_t d(start);
  d += (z_lin_exp_t(x) >= z_number(lo));
  d += (z_lin_exp_t(x) <= z_number(hi));
  return d;
}

int main() {
  variable_factory_t vfac;
  z_var x(vfac["x"], crab::INT_TYPE, 32);
  dom_t top;
  top.intrinsic(VALUE_PARTITION_START, {x}, {});
  dom_t a = slice(top, x, 0, 6);
  dom_t b = slice(top, x, 0, 1) | slice(top, x, 5, 6);
  crab::outs() << "A = " << a << "\nB = " << b << "\n";
  dom_t b3(b);
  b3 += (z_lin_exp_t(x) == z_number(3));
  dom_t a3(a);
  a3 += (z_lin_exp_t(x) == z_number(3));
  bool leq = (a <= b);
  crab::outs() << "A <= B: " << leq << "; x=3 in A: " << !a3.is_bottom()
               << "; x=3 in B: " << !b3.is_bottom() << "\n";
  if (leq && !a3.is_bottom() && b3.is_bottom()) {
    crab::outs() << "UNSOUND inclusion (unchanged tree)\n";
    return 1;
  }
  crab::outs() << "OK\n";
  return 0;
}
