// Behaviour of the UNCHANGED tree (not the seeded change).
//
// A bottom-up summary is the exit invariant of the callee projected onto the
// formal parameters, and the caller reads the formal input variables of that
// summary as the values passed at the call.  If the callee assigns to one of
// its input parameters the summary relates the outputs with the FINAL value of
// that parameter, so the caller derives a wrong output.
//
//   inc(x) -> r :  x := x + 1; r := x;      summary: r = x   (x is the new x)
//   main() -> b :  a := 0; b := inc(a);     reported: b = 0, concretely b = 1
//
// Caveat: the CrabIR documentation (cfg.hpp, "Function calls") tells clients to
// keep input parameters intact (copy them into outputs), and cfg type checking
// only enforces that inputs and outputs are disjoint, so this may be regarded
// as an unsupported program rather than as a defect.  It is accepted silently.
//
// exit status 1 if the reported invariant excludes the concrete result.
#include "crab_dom.hpp"
#include "crab_lang.hpp"

#include <crab/analysis/graphs/sccg_bgl.hpp>
#include <crab/analysis/inter/bottom_up_inter_analyzer.hpp>
#include <crab/analysis/inter/inter_params.hpp>
#include <crab/cg/cg_bgl.hpp>

using namespace crab::analyzer;
using namespace crab::cfg;
using namespace crab::cfg_impl;
using namespace crab::domain_impl;
using namespace crab::cg;

int main() {
  variable_factory_t vfac;
  z_var x(vfac["x"], crab::INT_TYPE, 32);
  z_var r(vfac["r"], crab::INT_TYPE, 32);
  z_var a(vfac["a"], crab::INT_TYPE, 32);
  z_var b(vfac["b"], crab::INT_TYPE, 32);

  function_decl<z_number, varname_t> fdecl("inc", {x}, {r});
  z_cfg_t f("entry", "exit", fdecl);
  z_basic_block_t &fe = f.insert("entry");
  z_basic_block_t &fx = f.insert("exit");
  fe >> fx;
  fe.add(x, x, 1);
  fe.assign(r, x);

  function_decl<z_number, varname_t> mdecl("main", {}, {b});
  z_cfg_t m("entry", "exit", mdecl);
  z_basic_block_t &me = m.insert("entry");
  z_basic_block_t &mx = m.insert("exit");
  me >> mx;
  me.assign(a, 0);
  me.callsite("inc", {b}, {a});

  using callgraph_t = call_graph<z_cfg_ref_t>;
  std::vector<z_cfg_ref_t> cfgs;
  cfgs.push_back(f);
  cfgs.push_back(m);
  callgraph_t cg(cfgs);

  using analyzer_t = bottom_up_inter_analyzer<callgraph_t, z_dbm_domain_t,
                                              z_interval_domain_t>;
  z_dbm_domain_t bu_top;
  z_interval_domain_t td_top;
  analyzer_t an(cg, td_top, bu_top);
  an.run(td_top);

  z_cfg_ref_t ref(m);
  auto post = an.get_post(ref, "entry");
  crab::outs() << "main:entry post = " << post << "   (concretely a=0, b=1)\n";
  z_interval_domain_t::interval_t one(z_number(1));
  bool bad = post.is_bottom() || !(one <= post[b]);
  crab::outs() << (bad ? "FAIL: b=1 is excluded\n" : "PASS\n");
  return bad ? 1 : 0;
}
