// Behaviour of the UNCHANGED tree (independent of patch.diff).
//
//   inc(a) -> (r)   { a := a + 1; r := a; }       // re-assigns its own formal input
//   main() -> (w)   { x := 5; y := inc(x); w := y; }
//
// CrabIR does not forbid a function from assigning to one of its input
// parameters (the cfg type checker and function_decl only require inputs and
// outputs to be disjoint). The bottom-up phase projects the state at the exit
// of inc onto {a, r} and takes that as the input/output relation, i.e. it
// reads the FINAL value of a as if it were the value on entry:
//     summary(inc) = { r == a }
// but the only concrete (input, output) pair for input 5 is (a=5, r=6).
// The top-down continuation in main then derives y == 5 (concretely y == 6).
//
// exit status: 1 when the violation is observed, 0 otherwise.

#include "crab_lang.hpp"
#include "crab_dom.hpp"

#include <crab/analysis/inter/bottom_up_inter_analyzer.hpp>
#include <crab/analysis/inter/inter_params.hpp>
#include <crab/cg/cg_bgl.hpp>

#include <cstdio>
#include <vector>

using namespace crab::cfg;
using namespace crab::cfg_impl;
using namespace crab::domain_impl;
using namespace crab::cg_impl;

int main() {
  crab::CrabEnableWarningMsg(false);
  variable_factory_t vfac;

  z_var a(vfac["a"], crab::INT_TYPE, 32);
  z_var r(vfac["r"], crab::INT_TYPE, 32);
  function_decl<z_number, varname_t> inc_decl("inc", {a}, {r});
  z_cfg_t inc("entry", "exit", inc_decl);
  {
    z_basic_block_t &entry = inc.insert("entry");
    z_basic_block_t &exit = inc.insert("exit");
    entry >> exit;
    entry.add(a, a, 1);
    exit.assign(r, a);
  }

  z_var x(vfac["x"], crab::INT_TYPE, 32);
  z_var y(vfac["y"], crab::INT_TYPE, 32);
  z_var w(vfac["w"], crab::INT_TYPE, 32);
  function_decl<z_number, varname_t> main_decl("main", {}, {w});
  z_cfg_t mainf("entry", "exit", main_decl);
  {
    z_basic_block_t &entry = mainf.insert("entry");
    z_basic_block_t &exit = mainf.insert("exit");
    entry >> exit;
    entry.assign(x, 5);
    entry.callsite("inc", {y}, {x});
    exit.assign(w, y);
  }

  std::vector<z_cfg_ref_t> cfgs;
  cfgs.push_back(mainf);
  cfgs.push_back(inc);
  z_cg_t cg(cfgs);

  using analyzer_t =
      crab::analyzer::bottom_up_inter_analyzer<z_cg_t, z_dbm_domain_t,
                                               z_interval_domain_t>;
  z_dbm_domain_t bu_top;
  z_interval_domain_t td_top;
  analyzer_t an(cg, td_top, bu_top);
  an.run(td_top);

  bool violated = false;

  // (1) the summary of inc must contain the pair (a=5, r=6)
  z_cfg_ref_t inc_ref(inc);
  auto summ = an.get_summary(inc_ref);
  for (auto const &pp : summ) {
    z_dbm_domain_t post = pp.get_post();
    crab::outs() << "summary(inc) = " << post << "\n";
    post += (z_lin_exp_t(a) == z_number(5));
    post += (z_lin_exp_t(r) == z_number(6));
    if (post.is_bottom()) {
      std::printf("UNSOUND: summary of inc excludes the concrete pair "
                  "(a=5, r=6)\n");
      violated = true;
    }
  }

  // (2) the invariant at the exit of main must contain y == 6
  z_cfg_ref_t main_ref(mainf);
  z_interval_domain_t inv = an.get_pre(main_ref, "exit");
  crab::outs() << "main.exit pre = " << inv << "\n";
  inv += (z_lin_exp_t(y) == z_number(6));
  if (inv.is_bottom()) {
    std::printf("UNSOUND: invariant before main.exit excludes the concrete "
                "state y=6\n");
    violated = true;
  }

  return violated ? 1 : 0;
}
