// Behaviour of the UNCHANGED tree (independent of the seeded patch).
//
// term_domain<..., split_dbm_domain> (z_term_dbm_t in tests/crab_dom.hpp)
// renames the numerical part of BOTH widening operands with assign()+project()
// before it calls the widening of split_dbm_domain.  assign() normalises
// (closes) the left operand, although split_dbm_domain::operator|| takes care
// NOT to close its left operand because closing it defeats termination
// (Mine's classical example).  Consequently the ascending chain below never
// becomes stationary w.r.t. operator<= for the term domain, whereas it is
// stationary after 2 steps for split_dbm_domain itself.
//
//   x_0     = { |v1 - v2| <= 1, v1 <= 0 }
//   y_k     = { |v1 - v2| <= 1, v1 <= k+1, v2 <= k+1 }
//   x_{k+1} = x_k widen y_k
//
// Exit status 1 when the violation is observed.

#include "crab_lang.hpp"
#include "crab_dom.hpp"

using namespace crab::cfg_impl;
using namespace crab::domain_impl;
using namespace ikos;

static const unsigned MAX_STEPS = 300;

template <typename Dom>
static bool chain_is_stationary(const char *name, z_var v1, z_var v2) {
  Dom x;
  x += (z_lin_exp_t(v1) - z_lin_exp_t(v2) <= z_number(1));
  x += (z_lin_exp_t(v2) - z_lin_exp_t(v1) <= z_number(1));
  x += (z_lin_exp_t(v1) <= z_number(0));
  for (unsigned k = 0; k < MAX_STEPS; ++k) {
    Dom y;
    y += (z_lin_exp_t(v1) - z_lin_exp_t(v2) <= z_number(1));
    y += (z_lin_exp_t(v2) - z_lin_exp_t(v1) <= z_number(1));
    y += (z_lin_exp_t(v1) <= z_number(k + 1));
    y += (z_lin_exp_t(v2) <= z_number(k + 1));
    if (y <= x) {
      crab::outs() << name << ": stationary after " << k << " step(s)\n";
      return true;
    }
    Dom w = x || y;
    x = w;
  }
  Dom copy(x);
  crab::outs() << name << ": NOT stationary after " << MAX_STEPS
               << " widening steps, current value " << copy << "\n";
  return false;
}

int main() {
  variable_factory_t vfac;
  z_var v1(vfac["v1"], crab::INT_TYPE, 32);
  z_var v2(vfac["v2"], crab::INT_TYPE, 32);
  bool ok1 = chain_is_stationary<z_sdbm_domain_t>("split_dbm", v1, v2);
  bool ok2 = chain_is_stationary<z_term_dbm_t>("term(split_dbm)", v1, v2);
  return (ok1 && ok2) ? 0 : 1;
}
