// Behaviour of the UNCHANGED tree that appears to violate property C15.
// (This is NOT the seeded change; it reproduces with the pristine sources.)
//
// small_range::increment(v) leaves the reference counter of a region at
// "exactly one (v)" when the reference variable v that is being (re)defined
// is the one already recorded in the counter.  If a CrabIR program redefines
// a reference variable (the IR is not required to be in SSA form) while an
// alias of its old value is still live, the region has two live cells but
// the counter still says "one", so ref_store performs a strong update and
// ref_load a strong read on the wrong cell.
//
// exit status 0: every concrete value is covered, 1: some value is not.

#include "crab_lang.hpp"
#include "crab_dom.hpp"

using namespace crab::cfg;
using namespace crab::cfg_impl;
using namespace crab::domain_impl;
using namespace ikos;

using interval_t = ikos::interval<z_number>;

static int check_contains(const char *what, interval_t abs, long concrete) {
  bool ok = (interval_t(z_number(concrete)) <= abs);
  crab::outs() << "  " << what << ": abstract value " << abs
               << ", concrete value " << concrete << " -> "
               << (ok ? "covered" : "NOT COVERED (unsound)") << "\n";
  return ok ? 0 : 1;
}

int main() {
  crab::domains::region_domain_params params(true, true, true, false, true);
  crab::domains::crab_domain_params_man::get().update_params(params);
  crab::CrabEnableWarningMsg(false);

  variable_factory_t vfac;
  crab::tag_manager as_man;
  z_var x(vfac["x"], crab::INT_TYPE, 32);
  z_var p(vfac["p"], crab::REF_TYPE, 32);
  z_var q(vfac["q"], crab::REF_TYPE, 32);
  z_var R(vfac["R"], crab::REG_INT_TYPE, 32);
  z_var_or_cst_t size4(z_number(4), crab::variable_type(crab::INT_TYPE, 32));
  z_var_or_cst_t size8(z_number(8), crab::variable_type(crab::INT_TYPE, 32));
  z_var_or_cst_t one(z_number(1), crab::variable_type(crab::INT_TYPE, 32));
  z_var_or_cst_t two(z_number(2), crab::variable_type(crab::INT_TYPE, 32));
  int err = 0;

  {
    //   region_init(R)
    //   p := make_ref(R, 4)          // cell A
    //   store_to_ref(R, p, 1)        // A = 1
    //   q := gep_ref(R, p + 0)       // q aliases A (no counter increment)
    //   p := make_ref(R, 4)          // cell B, counter stays 1(p)
    //   store_to_ref(R, p, 2)        // B = 2 (strong update in the abstract)
    //   x := load_from_ref(R, q)     // concrete: x = 1
    z_rgn_int_t inv;
    inv.region_init(R);
    inv.ref_make(p, R, size4, as_man.mk_tag());
    inv.ref_store(p, R, one);
    inv.ref_gep(p, R, q, R, z_lin_exp_t(z_number(0)));
    inv.ref_make(p, R, size4, as_man.mk_tag());
    inv.ref_store(p, R, two);
    inv.ref_load(q, R, x);
    crab::outs() << "make_ref twice with the same variable: " << inv << "\n";
    err += check_contains("x", inv[x], 1);
  }
  {
    //   region_init(R)
    //   p := make_ref(R, 8)          // cells A, A+4
    //   store_to_ref(R, p, 1)        // A = 1
    //   q := gep_ref(R, p + 0)       // q aliases A
    //   p := gep_ref(R, p + 4)       // p now points to A+4, counter stays 1(p)
    //   store_to_ref(R, p, 2)        // (A+4) = 2 (strong update)
    //   x := load_from_ref(R, q)     // concrete: x = 1
    z_rgn_int_t inv;
    inv.region_init(R);
    inv.ref_make(p, R, size8, as_man.mk_tag());
    inv.ref_store(p, R, one);
    inv.ref_gep(p, R, q, R, z_lin_exp_t(z_number(0)));
    inv.ref_gep(p, R, p, R, z_lin_exp_t(z_number(4)));
    inv.ref_store(p, R, two);
    inv.ref_load(q, R, x);
    crab::outs() << "p := gep_ref(p + 4): " << inv << "\n";
    err += check_contains("x", inv[x], 1);
  }
  if (err) {
    crab::outs() << "FAIL (unchanged tree): " << err << " value(s) not covered\n";
    return 1;
  }
  crab::outs() << "PASS\n";
  return 0;
}
