#include "crab_lang.hpp"
#include "crab_dom.hpp"
#include <crab/analysis/fwd_analyzer.hpp>
#include <ctime>
using namespace crab::cfg_impl;
using namespace crab::domain_impl;
using namespace ikos;
using dom_t = z_dis_interval_domain_t;
using analyzer_t = crab::analyzer::intra_fwd_analyzer<z_cfg_ref_t, dom_t>;
// x in {0, 5, M};  while(*) { if (5 <= x <= M-10) x++; }
static void run(long M, unsigned thresholds) {
  variable_factory_t vfac;
  z_var x(vfac["x"], crab::INT_TYPE, 32);
  auto cfg = new z_cfg_t("entry", "exit");
  z_basic_block_t &entry = cfg->insert("entry");
  z_basic_block_t &a0 = cfg->insert("a0");
  z_basic_block_t &a1 = cfg->insert("a1");
  z_basic_block_t &a2 = cfg->insert("a2");
  z_basic_block_t &head = cfg->insert("head");
  z_basic_block_t &body = cfg->insert("body");
  z_basic_block_t &exit = cfg->insert("exit");
  entry >> a0; entry >> a1; entry >> a2; a0 >> head; a1 >> head; a2 >> head;
  head >> body; body >> head; head >> exit;
  a0.assign(x, z_number(0)); a1.assign(x, z_number(5)); a2.assign(x, z_number(M));
  body.assume(x >= z_number(5)); body.assume(x <= z_number(M - 10)); body.add(x, x, z_number(1));
  dom_t init;
  crab::fixpoint_parameters params;
  params.get_widening_delay() = 1;
  params.get_descending_iterations() = 2;
  params.get_max_thresholds() = thresholds;
  analyzer_t a(*cfg, init.make_top(), nullptr, params);
  typename analyzer_t::assumption_map_t assumptions;
  clock_t t0 = clock();
  a.run(cfg->entry(), init, assumptions);
  double secs = double(clock() - t0) / CLOCKS_PER_SEC;
  crab::outs() << "M=" << M << " thresholds=" << thresholds << " head=" << a["head"] << " wto=" << a.get_wto() << " time=" << secs << "s\n";
  delete cfg;
}
int main() {
  crab::CrabEnableWarningMsg(false);
  run(1000, 0); run(10000, 0); run(40000, 0); run(10000, 20);
  return 0;
}
