// Behaviour of the UNCHANGED tree (not the seeded change).
//
//   entry: A[0] := 1;
//   then : A[4] := 7;                   else : skip;
//   merge: B := A;                      // array copy
//          i := nondet; assume(0 <= i <= 4);
//          B[i] := 1;                   // symbolic index: B is smashed
//          x := B[4];
//
// The execution through "then" with i = 0 reads x = 7. After the join, A has
// the cell [4..7] in its offset map but without ghost variable (the cell is
// known in only one operand). array_assign skips the cells of the rhs that
// have no ghost variable ("continue"), so B's offset map does not know about
// [4..7]; smashing B then summarizes only B[0] and x := B[4] yields [1,1].
//
// exit status 1 when the violation is observed.
#include "crab_lang.hpp"
#include "crab_dom.hpp"

using namespace crab::cfg_impl;
using namespace crab::domain_impl;
using namespace ikos;

int main() {
  variable_factory_t vfac;
  z_var a(vfac["A"], crab::ARR_INT_TYPE);
  z_var b(vfac["B"], crab::ARR_INT_TYPE);
  z_var i(vfac["i"], crab::INT_TYPE, 32);
  z_var x(vfac["x"], crab::INT_TYPE, 32);
  const unsigned sz = 4;

  z_aa_int_t left, right;
  left.array_store(a, sz, 0, 1, true);
  left.array_store(a, sz, 4, 7, true);
  right.array_store(a, sz, 0, 1, true);

  z_aa_int_t s = left | right;
  s.array_assign(b, a);
  s -= i;
  s += (z_lin_exp_t(i) >= z_number(0));
  s += (z_lin_exp_t(i) <= z_number(4));
  s.array_store(b, sz, i, 1, false);
  s.array_load(x, b, sz, 4);

  z_interval_t itv = s[x];
  z_interval_t seven{z_number(7)};
  crab::outs() << "x=" << itv << "\n";
  if (s.is_bottom() || !(seven <= itv)) {
    crab::outs() << "VIOLATION: 7 is readable from B[4] but is not in x\n";
    return 1;
  }
  crab::outs() << "ok\n";
  return 0;
}
