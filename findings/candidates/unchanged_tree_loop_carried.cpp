// Behaviour of the UNCHANGED tree that already violates property C18
// (assertion-crawler clause). Independent of _seed/patch.diff.
//
//   entry:                 goto head
//   head:                  goto body or ret
//   body: assert(x >= 1);
//         x := y;          goto head
//   ret:
//
// The value of y at the entry of `body` (and of `head` and `entry`) flows into
// the condition of the assertion along the path body, head, body: the second
// evaluation of assert(x >= 1) reads the value y had at the entry of body.
// The crawler reports that the assertion depends only on {x}.
//
// Cause: transfer_function::process_assertion overwrites the fact of the
// assertion (m_sol.get_first().set(id, uses)) instead of joining the uses
// with the fact that comes back around the loop, so what the assertion
// depends on "the next time" is dropped every time the assertion is crossed.
//
// Exit status: 1 if the violation is observed, 0 otherwise.
#include "crab_lang.hpp"
#include <crab/analysis/dataflow/assertion_crawler.hpp>

using namespace crab::cfg;
using namespace crab::cfg_impl;
using crawler_t = crab::analyzer::assertion_crawler<z_cfg_ref_t>;

int main() {
  variable_factory_t vfac;
  z_var x(vfac["x"], crab::INT_TYPE, 32);
  z_var y(vfac["y"], crab::INT_TYPE, 32);
  z_cfg_t cfg("entry", "ret");
  z_basic_block_t &entry = cfg.insert("entry");
  z_basic_block_t &head = cfg.insert("head");
  z_basic_block_t &body = cfg.insert("body");
  z_basic_block_t &ret = cfg.insert("ret");
  entry >> head;
  head >> body;
  body >> head;
  head >> ret;
  body.assertion(x >= 1);
  body.assign(x, y);

  unsigned violations = 0;
  for (int only_data = 0; only_data <= 1; ++only_data) {
    crawler_t::assert_map_t amap;
    crawler_t::summary_map_t sums;
    crawler_t crawler(cfg, amap, sums, only_data != 0);
    crawler.exec();
    for (std::string b : {"entry", "head", "body"}) {
      auto facts = crawler.get_results(b);
      crab::outs() << "only_data=" << only_data << " " << b << ": " << facts
                   << "\n";
      if (facts.is_top()) {
        continue;
      }
      for (auto kv : facts) {
        auto deps = kv.second;
        if (!deps.contain(y)) {
          crab::outs() << "  VIOLATION: y at the entry of " << b
                       << " flows into assert(x >= 1) (via x := y and the "
                       << "back edge) but is not listed\n";
          ++violations;
        }
      }
    }
  }
  return violations ? 1 : 0;
}
