// UNCHANGED TREE (independent of patch.diff): cfg::simplify() changes the
// final state of the exit-reaching executions when the exit block has a
// successor.
//
// merge_blocks() folds a block into its only predecessor when that
// predecessor has no other successor.  It does not check whether the
// predecessor is the exit block, so the statements of the exit's successor
// are appended to the exit block (and, in the chain below, the exit label
// moves to the entry block too).
//
//   f() returns y
//   entry: y = 0          -> exit
//   exit : y = 1          -> c            <- declared exit: executions that
//   c    : y = 99         -> d               end here return y = 1
//   d    : y = 100
//
// After simplify(): one block "y = 0; y = 1; y = 99", which is entry and
// exit: the only exit-reaching execution now returns y = 99.
//
// Second shape: the exit is the head of a cycle (entry -> exit -> c -> exit);
// c is folded into the exit, so every execution that ends at the exit has run
// the statements of c once more than in the original.
//
// exit status 1 when the violation is observed, 0 otherwise.
#include "crab_lang.hpp"
#include <cstdio>
#include <string>

using namespace crab::cfg_impl;

static std::string last_stmt_of_exit(z_cfg_t &cfg) {
  z_basic_block_t &bb = cfg.get_node(cfg.exit());
  std::string last = "<empty>";
  for (auto &s : bb) {
    crab::crab_string_os os;
    os << s;
    last = os.str();
  }
  return last;
}

int main() {
  variable_factory_t vfac;
  z_var y(vfac["y"], crab::INT_TYPE, 32);
  int bad = 0;
  {
    z_cfg_t::fdecl_t fdecl("f", {}, {y});
    z_cfg_t cfg("entry", "exit", fdecl);
    z_basic_block_t &entry = cfg.insert("entry");
    z_basic_block_t &exit = cfg.insert("exit");
    z_basic_block_t &c = cfg.insert("c");
    z_basic_block_t &d = cfg.insert("d");
    entry >> exit;
    exit >> c;
    c >> d;
    entry.assign(y, 0);
    exit.assign(y, 1);
    c.assign(y, 99);
    d.assign(y, 100);
    std::string before = last_stmt_of_exit(cfg);
    cfg.simplify();
    std::string after = last_stmt_of_exit(cfg);
    printf("chain: exit block ended with '%s', after simplify() the exit "
           "block '%s' ends with '%s'\n",
           before.c_str(), cfg.exit().c_str(), after.c_str());
    if (before != after)
      bad = 1;
  }
  {
    z_cfg_t::fdecl_t fdecl("g", {}, {y});
    z_cfg_t cfg("entry", "exit", fdecl);
    z_basic_block_t &entry = cfg.insert("entry");
    z_basic_block_t &exit = cfg.insert("exit");
    z_basic_block_t &c = cfg.insert("c");
    entry >> exit;
    exit >> c;
    c >> exit;
    entry.assign(y, 0);
    exit.add(y, y, 1);
    c.mul(y, y, 2);
    std::string before = last_stmt_of_exit(cfg);
    cfg.simplify();
    std::string after = last_stmt_of_exit(cfg);
    printf("cycle: exit block ended with '%s', after simplify() the exit "
           "block '%s' ends with '%s'\n",
           before.c_str(), cfg.exit().c_str(), after.c_str());
    if (before != after)
      bad = 1;
  }
  return bad;
}
