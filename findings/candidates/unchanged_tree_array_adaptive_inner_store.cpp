// Behaviour of the UNCHANGED tree that (apparently) violates property C01.
//
// array_adaptive_domain: a store at a NON-CONSTANT index whose byte range
// lies strictly inside an existing (larger) cell does not kill that cell,
// so the old contents of the cell are still reported after the store.
//
//   entry: havoc(i); assume(i >= 2); assume(i <= 5);
//          A[0..7] := 5        (one 8-byte element at offset 0)
//          A[i..i] := 7        (one 1-byte element at offset i, 2 <= i <= 5)
//          y := A[0..7]        (read the 8-byte element back)
//   exit :
//
// Whatever the byte order is, bytes 2..5 of the 8-byte value 5 are zero and
// one of them is overwritten with 7, so every concrete execution ends with
// y != 5. The analysis is unsound if the invariant at the entry of "exit"
// says y = 5 (more generally: if it excludes y = 5 + 7*256^k for all k).
//
// Cause: cell::symbolic_overlap(symb_lb, symb_ub, dom) in
// include/crab/domains/array_adaptive.hpp only asks whether the FIRST or the
// LAST byte of the cell can lie in [symb_lb, symb_ub]; it answers "no" when
// [symb_lb, symb_ub] is strictly inside the cell. The array cannot be smashed
// (8-byte cell, 1-byte store), so array_store relies on symbolic_overlap to
// find the cells to kill.
//
// exit status: 1 = violation observed, 0 = not observed.

#include "crab_lang.hpp"

#include <crab/analysis/fwd_analyzer.hpp>
#include <crab/domains/array_adaptive.hpp>
#include <crab/domains/intervals.hpp>
#include <crab/fixpoint/fixpoint_params.hpp>

using namespace crab::cfg;
using namespace crab::cfg_impl;
using ikos::z_number;

using base_dom_t = ikos::interval_domain<z_number, varname_t>;
using dom_t = crab::domains::array_adaptive_domain<base_dom_t>;
using analyzer_t = crab::analyzer::intra_fwd_analyzer<z_cfg_ref_t, dom_t>;

int main() {
  variable_factory_t vfac;
  z_var a(vfac["A"], crab::ARR_INT_TYPE);
  z_var i(vfac["i"], crab::INT_TYPE, 32);
  z_var y(vfac["y"], crab::INT_TYPE, 64);
  z_cfg_t cfg("entry", "exit");
  z_basic_block_t &entry = cfg.insert("entry");
  z_basic_block_t &exit = cfg.insert("exit");
  entry >> exit;
  entry.havoc(i);
  entry.assume(i >= z_number(2));
  entry.assume(i <= z_number(5));
  entry.array_store(a, z_number(0), z_number(5), z_number(8));
  entry.array_store(a, i, z_number(7), z_number(1));
  entry.array_load(y, a, z_number(0), z_number(8));

  crab::fixpoint_parameters params;
  dom_t top;
  z_cfg_ref_t cfg_ref(cfg);
  analyzer_t an(cfg_ref, top, nullptr, params);
  an.run(top);
  dom_t inv = an.get_pre("exit");
  crab::outs() << cfg << "\n";
  crab::outs() << "invariant at entry of exit = " << inv << "\n";

  // Every concrete final value of y is 5 + 7*256^k (little endian, k = i)
  // or 5 + 7*256^(7-k) (big endian), with 2 <= k <= 5.
  bool some_covered = false;
  for (unsigned k = 2; k <= 5; ++k) {
    z_number v(5);
    z_number p(7);
    for (unsigned j = 0; j < k; ++j) {
      p = p * z_number(256);
    }
    v = v + p;
    dom_t tmp(inv);
    tmp += z_lin_cst_t(y == v);
    if (!tmp.is_bottom()) {
      some_covered = true;
    }
  }
  if (!some_covered) {
    crab::outs() << "UNSOUND: no concrete final value of y is in the "
                    "invariant (the stale 8-byte cell survived the store)\n";
    return 1;
  }
  crab::outs() << "not observed\n";
  return 0;
}
