// Behaviour of the UNCHANGED tree (independent of _seed/patch.diff).
//
// Property C12 quantifies over "arbitrary constants".  z_sdbm_domain_t (and
// z_soct_domain_t) store weights as plain int64_t
// (DBM_impl::DefaultParams::Wt, see graphs/graph_config.hpp: "things can go
// wrong if some DBM operation overflows").  Each constant below fits in
// int64_t, so ntow::convert() reports no overflow, but ub(i) - lb(j)
// = 2^62 + 2^62 + 10 wraps around to a negative number:
//   * entails(i - j <= 5) answers TRUE although {i <= 2^62, j >= -2^62-10}
//     does not imply it (e.g. i = 2^62, j = 0), and
//   * "+= (i - j <= 5)" is silently dropped by the "already implied by the
//     bounds" shortcut of add_linear_leq, so the result is not the exact meet.
//
// Exit status 1 when the violation is observed, 0 otherwise.
#include "crab_lang.hpp"
#include "crab_dom.hpp"
#include <cstdio>
using namespace crab::cfg_impl;
using namespace crab::domain_impl;
using namespace ikos;

int main() {
  variable_factory_t vfac;
  z_var i(vfac["i"], crab::INT_TYPE, 64), j(vfac["j"], crab::INT_TYPE, 64);
  z_number big("4611686018427387904"); // 2^62
  int bad = 0;

  z_sdbm_domain_t d;
  d += z_lin_cst_t(z_lin_exp_t(i) <= big);
  d += z_lin_cst_t(z_lin_exp_t(j) >= -big - 10);
  z_lin_cst_t c(z_lin_exp_t(i) - z_lin_exp_t(j) <= z_number(5));
  if (d.entails(c)) {
    std::printf("VIOLATION: {i<=2^62, j>=-2^62-10} entails i-j<=5\n");
    bad = 1;
  }
  // adding the constraint and an upper bound on j must bound i
  z_sdbm_domain_t e(d);
  e += c;
  e += z_lin_cst_t(z_lin_exp_t(j) <= z_number(0));
  if (!e.entails(z_lin_cst_t(z_lin_exp_t(i) <= z_number(5)))) {
    std::printf("VIOLATION: i-j<=5 was dropped: {.., i-j<=5, j<=0} does not "
                "entail i<=5\n");
    bad = 1;
  }
  if (!bad)
    std::printf("OK\n");
  return bad;
}
