// Behaviour of the UNCHANGED tree that already violates C12 (octagons are
// exact for arbitrary constants).
//
// split_oct_domain::integer_tightening() rounds an odd weight 2x <= w down to
// the next even number through a `float`:
//     Wt tightened_w = 2 * (Wt)std::floor((float)w.get() / 2);
// A float has a 24-bit mantissa, so for |w| > 2^24 the cast itself rounds and
// the "tightened" weight can be LARGER than w, i.e. the bound gets looser.
//
//   x + y <= 33554435 and x - y <= 0  imply  2x <= 33554435, i.e. x <= 16777217
//
// Exit status 1 when the violation is observed.
#include "crab_lang.hpp"
#include "crab_dom.hpp"

using namespace crab::cfg_impl;
using namespace crab::domain_impl;
using namespace ikos;

int main() {
  variable_factory_t vfac;
  z_var x(vfac["x"], crab::INT_TYPE, 32);
  z_var y(vfac["y"], crab::INT_TYPE, 32);
  int bad = 0;
  {
    z_soct_domain_t o;
    o += (z_lin_exp_t(x) + z_lin_exp_t(y) <= z_number(33554435));
    o += (z_lin_exp_t(x) - z_lin_exp_t(y) <= z_number(0));
    crab::outs() << "large constant: " << o << "\n";
    // entails() re-derives the bound from the two relations, so look at the
    // stored unary bound: directly, and after forgetting y (forget is exact,
    // so x <= 16777217 must survive it).
    z_interval_t ix = o[x];
    if (!(ix.ub() <= z_interval_t::bound_t(z_number(16777217)))) {
      crab::outs() << "VIOLATION: upper bound of x is " << ix.ub()
                   << " but x <= 16777217 is implied\n";
      bad = 1;
    }
    o -= y;
    crab::outs() << "after forgetting y: " << o << "\n";
    if (!o.entails(z_lin_exp_t(x) <= z_number(16777217))) {
      crab::outs() << "VIOLATION: after forgetting y, x <= 16777217 is implied "
                   << "but not entailed\n";
      bad = 1;
    }
  }
  { // same shape with a small constant is exact
    z_soct_domain_t o;
    o += (z_lin_exp_t(x) + z_lin_exp_t(y) <= z_number(35));
    o += (z_lin_exp_t(x) - z_lin_exp_t(y) <= z_number(0));
    crab::outs() << "small constant: " << o << "\n";
    if (!o.entails(z_lin_exp_t(x) <= z_number(17))) {
      crab::outs() << "unexpected: small constant not exact either\n";
      bad = 1;
    }
  }
  return bad;
}
