// flat_boolean_numerical_domain::forget(vector) / project / expand return early when
// is_top(), but is_top() only looks at the (bool x numerical) product and ignores the
// relational side tables (m_bool_to_bools, m_bool_to_lincsts, m_unchanged_vars).
// So a forgotten variable stays related to other variables.
#include "crab_dom.hpp"
#include <crab/domains/powerset_domain.hpp>
using namespace crab::cfg_impl;
using namespace crab::domain_impl;
using namespace crab::domains;
using ikos::z_number;
typedef z_bool_interval_domain_t dom_t;   // flat_boolean_numerical_domain<interval_domain>

int main() {
  variable_factory_t vfac;
  z_var x(vfac["x"], crab::INT_TYPE, 32);
  z_var b0(vfac["b0"], crab::BOOL_TYPE, 1);
  z_var b1(vfac["b1"], crab::BOOL_TYPE, 1);
  int bad = 0;
  { // (a) b1 := b0 ; forget({b0}) ; assume(b1) ; assume(!b0)   -- state b0=false,b1=true is reachable
    dom_t d;
    d.assign_bool_var(b1, b0, false);
    d.forget({b0});                  // havoc b0
    d.assume_bool(b1, false);
    d.assume_bool(b0, true);
    crab::outs() << "(a) forget({b0}): " << d << "\n";
    if (d.is_bottom()) { crab::outs() << "  VIOLATION: bottom, but b0=false,b1=true is a concrete state\n"; bad = 1; }
    // same with operator-= is fine:
    dom_t e;
    e.assign_bool_var(b1, b0, false);
    e -= b0;
    e.assume_bool(b1, false);
    e.assume_bool(b0, true);
    crab::outs() << "    with operator-=: " << e << "\n";
  }
  { // (b) b1 := (x <= 0) ; forget({x}) ; assume(b1) -- x is arbitrary afterwards
    dom_t d;
    d.assign_bool_cst(b1, z_lin_cst_t(z_lin_exp_t(x) <= z_number(0)));
    d.forget({x});                   // havoc x
    d.assume_bool(b1, false);
    auto i = d.at(x);
    crab::outs() << "(b) forget({x}): x in " << i << "\n";
    if (!i[z_number(5)]) { crab::outs() << "  VIOLATION: x=5,b1=true is a concrete state\n"; bad = 1; }
  }
  { // (c) the same through project: keep only b1
    dom_t d;
    d.assign_bool_var(b1, b0, false);
    d.project({b1});                 // havoc everything but b1
    d.assume_bool(b1, false);
    d.assume_bool(b0, true);
    crab::outs() << "(c) project({b1}): " << d << "\n";
    if (d.is_bottom()) { crab::outs() << "  VIOLATION: bottom, but b0=false,b1=true is a concrete state\n"; bad = 1; }
  }
  { // (d) the same through rename: b1 := (x <= 0); rename x->t; assume(y == 5); rename y->x; assume(b1)
    // concrete run: x=-3,b1=true,y=5  ==>  t=-3, x=5, b1=true
    dom_t d;
    z_var y(vfac["y"], crab::INT_TYPE, 32);
    z_var t(vfac["t"], crab::INT_TYPE, 32);
    d.assign_bool_cst(b1, z_lin_cst_t(z_lin_exp_t(x) <= z_number(0)));
    d.rename({x}, {t});              // skipped: "is_top()"; x stays in m_unchanged_vars
    d += z_lin_cst_t(z_lin_exp_t(y) == z_number(5));
    d.rename({y}, {x});
    d.assume_bool(b1, false);
    crab::outs() << "(d) rename: " << d << "\n";
    if (d.is_bottom()) { crab::outs() << "  VIOLATION: bottom, but t=-3,x=5,b1=true is a concrete state\n"; bad = 1; }
  }
  { // (e) the wrong is_top() also misleads wrappers that shortcut on it: powerset join of TOP with A
    //     returns A ("other.is_top()"), which still carries "b1 => x <= 0".
    typedef powerset_domain<dom_t> pw_t;
    pw_t T, A;
    A.assign_bool_cst(b1, z_lin_cst_t(z_lin_exp_t(x) <= z_number(0)));
    pw_t J = T | A;                  // must be top: T describes x=5,b1=true
    J.assume_bool(b1, false);
    auto i = J.at(x);
    crab::outs() << "(e) powerset: (TOP | A) + assume(b1): x in " << i << "\n";
    if (!i[z_number(5)]) { crab::outs() << "  VIOLATION: x=5,b1=true is described by TOP\n"; bad = 1; }
  }
  return bad;
}
