// flat_boolean_numerical_domain::select_bool(lhs, cond, b1, b2) with lhs == cond
// ("c := c ? x : y"): the Boolean product is updated first and the reduction helpers
// (fwd_reduction_select_bool: eval_true(cond) / eval_false(cond)) then read the *new*
// value of cond, so they record the facts of the wrong branch ("c => x" although c
// was false and c := y was executed).
#include "crab_dom.hpp"
using namespace crab::cfg_impl;
using namespace crab::domain_impl;
using namespace crab::domains;
using ikos::z_number;
typedef z_bool_interval_domain_t dom_t;   // flat_boolean_numerical_domain<interval_domain>

int main() {
  variable_factory_t vfac;
  z_var c(vfac["c"], crab::BOOL_TYPE, 1);
  z_var x(vfac["x"], crab::BOOL_TYPE, 1);
  z_var y(vfac["y"], crab::BOOL_TYPE, 1);
  z_var n(vfac["n"], crab::INT_TYPE, 32);
  int bad = 0;
  { // concrete run: c=false, y=true, x=false:   c := c ? x : y   -> c = true, x = false
    dom_t d;
    d.assume_bool(c, true /*negated: c is false*/);
    d.assume_bool(y, false /*y is true*/);
    d.select_bool(c, c, x, y);
    d.assume_bool(c, false /*c is true*/);
    d.assume_bool(x, true /*x is false*/);
    crab::outs() << "(a) " << d << "\n";
    if (d.is_bottom()) { crab::outs() << "  VIOLATION: c=true,y=true,x=false is a concrete state\n"; bad = 1; }
  }
  { // same with a numerical fact: x := (n <= 0); c=false; y=true; c := c ? x : y; assume(c)
    // concrete run with n = 7: x=false, c becomes true, n is still 7
    dom_t d;
    d.assign_bool_cst(x, z_lin_cst_t(z_lin_exp_t(n) <= z_number(0)));
    d.assume_bool(c, true);
    d.assume_bool(y, false);
    d.select_bool(c, c, x, y);
    d.assume_bool(c, false);
    auto i = d.at(n);
    crab::outs() << "(b) n in " << i << "\n";
    if (!i[z_number(7)]) { crab::outs() << "  VIOLATION: n=7,x=false,y=true,c=true is a concrete state\n"; bad = 1; }
  }
  return bad;
}
