// flat_boolean_numerical_domain meet / narrowing (operator&, operator&=, operator&&):
// the side tables are met component-wise; m_unchanged_vars is a dual set (meet = union),
// so a constraint "b => v <= 0" that is stale in the left operand (v was reassigned there,
// v not in its m_unchanged_vars) becomes valid again when the right operand lists v as
// unchanged.  A later assume_bool(b) then adds v <= 0 for the *current* v.
#include "crab_dom.hpp"
using namespace crab::cfg_impl;
using namespace crab::domain_impl;
using namespace crab::domains;
using ikos::z_number;
typedef z_bool_interval_domain_t dom_t;   // flat_boolean_numerical_domain<interval_domain>

int main() {
  variable_factory_t vfac;
  z_var v(vfac["v"], crab::INT_TYPE, 32);
  z_var b(vfac["b"], crab::BOOL_TYPE, 1);
  z_var b2(vfac["b2"], crab::BOOL_TYPE, 1);
  // A:  b := (v <= 0); v := 5       concrete run from v=-1: (v=5, b=true, b2=*)
  // B:  b2 := (v <= 100)            concrete run from v=5 : (v=5, b=*, b2=true)
  // so (v=5, b=true, b2=true) is described by A and by B, hence by A meet B.
  dom_t A, B;
  A.assign_bool_cst(b, z_lin_cst_t(z_lin_exp_t(v) <= z_number(0)));
  A.assign(v, z_lin_exp_t(z_number(5)));
  B.assign_bool_cst(b2, z_lin_cst_t(z_lin_exp_t(v) <= z_number(100)));
  int bad = 0;
  {
    dom_t M = A & B;
    M.assume_bool(b, false);
    M.assume_bool(b2, false);
    crab::outs() << "(A & B) + assume(b) + assume(b2) = " << M << "\n";
    if (M.is_bottom()) { crab::outs() << "  VIOLATION: v=5,b=true,b2=true lost by operator&\n"; bad = 1; }
  }
  {
    dom_t M = B; M &= A;
    M.assume_bool(b, false);
    crab::outs() << "(B &= A) + assume(b) = " << M << "\n";
    if (M.is_bottom()) { crab::outs() << "  VIOLATION: v=5,b=true,b2=true lost by operator&=\n"; bad = 1; }
  }
  {
    dom_t M = A && (A & B);   // narrowing
    M.assume_bool(b, false);
    crab::outs() << "(A && (A & B)) + assume(b) = " << M << "\n";
    if (M.is_bottom()) { crab::outs() << "  VIOLATION: v=5,b=true,b2=true lost by operator&&\n"; bad = 1; }
  }
  { // sanity: A alone keeps the state
    dom_t M = A;
    M.assume_bool(b, false);
    crab::outs() << "A + assume(b) = " << M << "\n";
  }
  return bad;
}
