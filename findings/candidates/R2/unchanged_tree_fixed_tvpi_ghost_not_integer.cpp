// fixed_tvpi_domain (with fixed_tvpi.coefficients set): the ghost variable GHOST(v,N)
// stands for the rational v/N but lives in an integer base domain, which rounds its
// bounds / tightens strict inequalities as if v/N were an integer.
#include "crab_dom.hpp"
using namespace crab::cfg_impl;
using namespace crab::domain_impl;
using namespace crab::domains;
using ikos::z_number;
typedef z_fixed_tvpi_domain_t dom_t;   // fixed_tvpi_domain<split_dbm_domain>

int main() {
  crab_domain_params_man::get().set_param("fixed_tvpi.coefficients", "2");
  variable_factory_t vfac;
  z_var x(vfac["x"], crab::INT_TYPE, 32);
  z_var w(vfac["w"], crab::INT_TYPE, 32);
  int bad = 0;
  { // assume(x < 2): x = 1 is a model
    dom_t d;
    d += z_lin_cst_t(z_lin_exp_t(x) - z_lin_exp_t(z_number(2)), z_lin_cst_t::STRICT_INEQUALITY);
    bool e = d.entails(z_lin_cst_t(z_lin_exp_t(x) <= z_number(0)));
    crab::outs() << "(a) after assume(x < 2): " << d << "  entails(x <= 0) = " << e << "\n";
    if (e) { crab::outs() << "  VIOLATION: x = 1 satisfies x < 2 but not x <= 0\n"; bad = 1; }
  }
  { // assume(3*x <= 4): x = 1 is a model
    dom_t d;
    d += z_lin_cst_t(z_lin_exp_t(z_number(3), x) <= z_number(4));
    bool e = d.entails(z_lin_cst_t(z_lin_exp_t(x) <= z_number(0)));
    crab::outs() << "(b) after assume(3*x <= 4): " << d << "  entails(x <= 0) = " << e << "\n";
    if (e) { crab::outs() << "  VIOLATION: x = 1 satisfies 3*x <= 4 but not x <= 0\n"; bad = 1; }
  }
  { // assume(x < 2); assume(2*w < x): w = 0, x = 1 is a model
    dom_t d;
    d += z_lin_cst_t(z_lin_exp_t(x) - z_lin_exp_t(z_number(2)), z_lin_cst_t::STRICT_INEQUALITY);
    d += z_lin_cst_t(z_lin_exp_t(z_number(2), w) - z_lin_exp_t(x), z_lin_cst_t::STRICT_INEQUALITY);
    auto i = d.at(w);
    crab::outs() << "(c) after assume(x < 2); assume(2*w < x): w in " << i << "\n";
    if (!i[z_number(0)]) { crab::outs() << "  VIOLATION: w = 0, x = 1 is a model\n"; bad = 1; }
  }
  return bad;
}
