// UNCHANGED-TREE violation #2 (independent of patch.diff).
//
// region_domain::region_cast(src, dst) from an unknown region whose contents
// are not tracked (always the case with the default
// region.skip_unknown_regions=true) copies the reference counter and the init
// flag of src to dst but leaves the ghost variable of dst untouched, so dst
// keeps the contents it had BEFORE the cast.  A later (strong) load from dst
// returns that stale value.
//
//   region_init(D:int); region_init(U:unknown);
//   p := make_ref(D); store(D, p, 5);
//   q := make_ref(U); store(U, q, 7);
//   region_cast(U, D);           // D now has the contents of U
//   x := load(D, q);             // concrete: 7, abstract: [5,5]
//
// exit status 1 when the violation is observed.
#include "../tests/common.hpp"
using namespace crab::cfg_impl;
using namespace crab::domain_impl;
using namespace ikos;
typedef interval<z_number> z_interval_t;

int main() {
  crab::CrabEnableWarningMsg(false);
  variable_factory_t vfac;
  crab::tag_manager as_man;
  z_var_or_cst_t size4(z_number(4), crab::variable_type(crab::INT_TYPE, 32));
  z_var_or_cst_t n5(z_number(5), crab::variable_type(crab::INT_TYPE, 32));
  z_var_or_cst_t n7(z_number(7), crab::variable_type(crab::INT_TYPE, 32));
  z_var p(vfac["p"], crab::REF_TYPE, 32);
  z_var q(vfac["q"], crab::REF_TYPE, 32);
  z_var x(vfac["x"], crab::INT_TYPE, 32);
  z_var D(vfac["D"], crab::REG_INT_TYPE, 32);
  z_var U(vfac["U"], crab::REG_UNKNOWN_TYPE, 32);
  z_rgn_int_t inv;   // default parameters
  inv.region_init(D);
  inv.region_init(U);
  inv.ref_make(p, D, size4, as_man.mk_tag());
  inv.ref_store(p, D, n5);
  inv.ref_make(q, U, size4, as_man.mk_tag());
  inv.ref_store(q, U, n7);
  inv.region_cast(U, D);
  inv.ref_load(q, D, x);
  z_interval_t ix = inv[x];
  crab::outs() << inv << "   x = " << ix << "\n";
  if (inv.is_bottom() || !(z_interval_t(z_number(7)) <= ix)) {
    crab::outs() << "UNSOUND: x misses the concrete value 7\n";
    return 1;
  }
  return 0;
}
