// Behaviour of the UNCHANGED tree (independent of _seed/patch.diff).
//
// split_dbm_domain::expand(x, y) copies the edges of x to the new vertex of y
// but does not add the edges between x and y that closure requires (the
// shortest cycles x -> b -> x become paths y -> b -> x and x -> b -> y).
// With x == b, the expanded value is {x-b<=0, b-x<=0, y-b<=0, b-y<=0}; this
// conjunction implies y - x <= 0 and x - y <= 0, but split_dbm does not entail
// them (split_oct and sparse_dbm do), and after "forget b" the relation
// between x and y is lost for good, so forget is not exact either.
//
// Exit status 1 when the violation is observed, 0 otherwise.
#include "crab_lang.hpp"
#include "crab_dom.hpp"
#include <cstdio>
using namespace crab::cfg_impl;
using namespace crab::domain_impl;
using namespace ikos;

template <class D> static int run(const char *n) {
  variable_factory_t vfac;
  z_var x(vfac["x"], crab::INT_TYPE, 32), b(vfac["b"], crab::INT_TYPE, 32),
      y(vfac["y"], crab::INT_TYPE, 32);
  D d;
  d += z_lin_cst_t(z_lin_exp_t(x) - z_lin_exp_t(b) <= z_number(0));
  d += z_lin_cst_t(z_lin_exp_t(b) - z_lin_exp_t(x) <= z_number(0));
  d.expand(x, y);
  crab::outs() << n << ": after expand(x,y): " << d << "\n";
  z_lin_cst_t c(z_lin_exp_t(y) - z_lin_exp_t(x) <= z_number(0));
  int bad = 0;
  if (!d.entails(c)) {
    std::printf("%s: VIOLATION: y - x <= 0 is implied but not entailed\n", n);
    bad = 1;
  }
  // reference: the same conjunction added constraint by constraint
  D r;
  r += z_lin_cst_t(z_lin_exp_t(x) - z_lin_exp_t(b) <= z_number(0));
  r += z_lin_cst_t(z_lin_exp_t(b) - z_lin_exp_t(x) <= z_number(0));
  r += z_lin_cst_t(z_lin_exp_t(y) - z_lin_exp_t(b) <= z_number(0));
  r += z_lin_cst_t(z_lin_exp_t(b) - z_lin_exp_t(y) <= z_number(0));
  if (!r.entails(c)) {
    std::printf("%s: (reference conjunction does not entail it either?)\n", n);
  }
  d -= b;
  r -= b;
  if (r.entails(c) && !d.entails(c)) {
    std::printf("%s: VIOLATION: after forget b, y - x <= 0 is lost\n", n);
    bad = 1;
  }
  return bad;
}

int main() {
  int bad = 0;
  bad |= run<z_sdbm_domain_t>("split_dbm");
  bad |= run<z_soct_domain_t>("split_oct");
  bad |= run<z_dbm_domain_t>("sparse_dbm");
  if (!bad)
    std::printf("OK\n");
  return bad;
}
