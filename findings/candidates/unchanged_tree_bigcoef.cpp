// UNCHANGED TREE (no patch needed): the DBM-based domains silently drop a term
// of a linear expression when its coefficient does not fit in the 64-bit
// weight type ("if (overflow) continue;" in diffcsts_of_lin_leq /
// diffcsts_of_assign of split_dbm.hpp, sparse_dbm.hpp and the analogous code
// of split_oct.hpp), and then use the truncated expression as if it were the
// whole one.
//
//   assume(y + 2^70*z <= 0)   gives  y <= 0    although (y=5, z=-1) satisfies it
//   x := y + 2^70*z  (soct)   gives  x = y     although (y=0, z=1) gives x=2^70
//
// Exit status 1 when a violation is observed, 0 otherwise.
#include "crab_lang.hpp"
#include "crab_dom.hpp"

using namespace crab::cfg_impl;
using namespace crab::domain_impl;
using namespace crab::domains;

static int violations = 0;

template <typename Dom> static void run(const char *name) {
  variable_factory_t vfac;
  z_var x(vfac["x"], crab::INT_TYPE, 32);
  z_var y(vfac["y"], crab::INT_TYPE, 32);
  z_var z(vfac["z"], crab::INT_TYPE, 32);
  z_number big("1180591620717411303424"); // 2^70

  {
    Dom d;
    d += (z_lin_exp_t(y) + big * z_lin_exp_t(z) <= z_number(0));
    // concrete state y=5, z=-1 satisfies the constraint
    Dom c(d);
    c += (z_lin_exp_t(y) == z_number(5));
    c += (z_lin_exp_t(z) == z_number(-1));
    if (c.is_bottom() || !(d.at(y)[z_number(5)])) {
      ++violations;
      crab::outs() << name << ": assume(y + 2^70*z <= 0) = " << d
                   << " excludes (y=5,z=-1)\n";
    }
  }
  {
    Dom d;
    d += (z_lin_exp_t(y) >= z_number(0));
    d += (z_lin_exp_t(y) <= z_number(10));
    d.assign(x, z_lin_exp_t(y) + big * z_lin_exp_t(z));
    // concrete state y=0, z=1, x=2^70
    z_lin_cst_t claim(z_lin_exp_t(x) - z_lin_exp_t(y) <= z_number(0));
    if (d.entails(claim) || !(d.at(x)[big])) {
      ++violations;
      crab::outs() << name << ": x := y + 2^70*z = " << d
                   << " excludes (y=0,z=1,x=2^70)\n";
    }
  }
}

int main() {
  run<z_sdbm_domain_t>("split_dbm");
  run<z_dbm_domain_t>("sparse_dbm");
  run<z_soct_domain_t>("split_oct");
  if (violations > 0) {
    crab::outs() << "UNSOUND (unchanged tree): " << violations
                 << " violations\n";
    return 1;
  }
  crab::outs() << "OK\n";
  return 0;
}
