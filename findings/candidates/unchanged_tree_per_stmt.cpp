// Behaviour of the UNCHANGED tree (independent of _seed/patch.diff):
// assertion_crawler::get_results(block, map) -- the per-statement variant --
// starts the backward replay of the block from the facts stored for the
// block, but those are the facts at the ENTRY of the block (m_results is
// filled from the IN map of the backward fixpoint), not the facts at its end.
// The transfer function of the block is therefore applied twice.
//
//   b1: x := y;
//       y := z;        goto b2
//   b2: assert(x >= 1)
//
// Pre-state of "y := z": the assertion depends on x (x is not redefined
// afterwards). Pre-state of "x := y": the assertion depends on y.
// Reported: {z} for both.
//
// Exit status: 1 if the violation is observed, 0 otherwise.
#include "crab_lang.hpp"
#include <crab/analysis/dataflow/assertion_crawler.hpp>

using namespace crab::cfg;
using namespace crab::cfg_impl;
using crawler_t = crab::analyzer::assertion_crawler<z_cfg_ref_t>;

int main() {
  variable_factory_t vfac;
  z_var x(vfac["x"], crab::INT_TYPE, 32);
  z_var y(vfac["y"], crab::INT_TYPE, 32);
  z_var z(vfac["z"], crab::INT_TYPE, 32);
  z_cfg_t cfg("b1", "b2");
  z_basic_block_t &b1 = cfg.insert("b1");
  z_basic_block_t &b2 = cfg.insert("b2");
  b1 >> b2;
  b1.assign(x, y);
  b1.assign(y, z);
  b2.assertion(x >= 1);

  crawler_t::assert_map_t amap;
  crawler_t::summary_map_t sums;
  crawler_t crawler(cfg, amap, sums, true);
  crawler.exec();
  crab::outs() << "entry of b1: " << crawler.get_results("b1") << "\n";

  std::map<z_cfg_ref_t::statement_t *, crawler_t::assert_map_domain_t> res;
  crawler.get_results("b1", res);
  unsigned violations = 0;
  unsigned idx = 0;
  for (auto &s : b1) {
    auto it = res.find(&s);
    if (it == res.end()) {
      ++idx;
      continue;
    }
    crab::outs() << "pre-state of \"" << s << "\": " << it->second << "\n";
    z_var expected = (idx == 0 ? y : x);
    if (!it->second.is_top()) {
      for (auto kv : it->second) {
        auto deps = kv.second;
        if (!deps.contain(expected)) {
          crab::outs() << "  VIOLATION: " << expected
                       << " flows into the assertion from this point but is "
                       << "not listed\n";
          ++violations;
        }
      }
    }
    ++idx;
  }
  return violations ? 1 : 0;
}
