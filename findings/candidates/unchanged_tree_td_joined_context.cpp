// UNCHANGED-TREE observation (not the seeded change).
//
// top_down_inter_analyzer with params.max_call_contexts = 1 (any small bound).
//
//   f(x0) returns (z) {
//     entry: x := x0;
//     bt:    assume(x == 5); assert(x <= 0);   // fails iff f is called with 5
//     bf:    assume(x != 5);
//     exit:  z := x;
//   }
//   main() { a:=0; f(a); b:=10; f(b); c:=20; f(c); d:=5; f(d); }
//
// When the third calling context of f is stored, the two oldest ones
// (x=0 and x=10) are joined into one context with precondition x in [0,10]
// (default_context_sensitivity_policy::add). A joined context is not "exact",
// so calling_context::is_subsumed() accepts any entry state d <= [0,10]; the
// call f(5) therefore reuses the joined summary although f was never analysed
// (nor checked) with x = 5, which lies in the gap of the convex join. The
// interleaved checker only ever saw the assertion as unreachable.
//
// exit status: 1 = violation observed (no warning for the failing assertion),
//              0 = not observed.

#include "crab_dom.hpp"
#include "crab_lang.hpp"

#include <crab/analysis/inter/inter_params.hpp>
#include <crab/analysis/inter/top_down_inter_analyzer.hpp>
#include <crab/cg/cg_bgl.hpp>

#include <iostream>
#include <memory>
#include <vector>

using namespace crab;
using namespace crab::analyzer;
using namespace crab::cfg;
using namespace crab::cfg_impl;
using namespace crab::domain_impl;
using namespace crab::cg;

static z_cfg_t *make_f(variable_factory_t &vfac) {
  z_var x0(vfac["x0"], crab::INT_TYPE, 32);
  z_var x(vfac["x"], crab::INT_TYPE, 32);
  z_var z(vfac["z"], crab::INT_TYPE, 32);
  function_decl<z_number, varname_t> decl("f", {x0}, {z});
  z_cfg_t *cfg = new z_cfg_t("entry", "exit", decl);
  z_basic_block_t &entry = cfg->insert("entry");
  z_basic_block_t &bt = cfg->insert("bt");
  z_basic_block_t &bf = cfg->insert("bf");
  z_basic_block_t &exit = cfg->insert("exit");
  entry >> bt;
  entry >> bf;
  bt >> exit;
  bf >> exit;
  entry.assign(x, x0);
  bt.assume(x == 5);
  bt.assertion(x <= 0);
  bf.assume(x != 5);
  exit.assign(z, x);
  return cfg;
}

static z_cfg_t *make_main(variable_factory_t &vfac) {
  z_var a(vfac["a"], crab::INT_TYPE, 32);
  z_var b(vfac["b"], crab::INT_TYPE, 32);
  z_var c(vfac["c"], crab::INT_TYPE, 32);
  z_var d(vfac["d"], crab::INT_TYPE, 32);
  z_var r1(vfac["r1"], crab::INT_TYPE, 32);
  z_var r2(vfac["r2"], crab::INT_TYPE, 32);
  z_var r3(vfac["r3"], crab::INT_TYPE, 32);
  z_var r4(vfac["r4"], crab::INT_TYPE, 32);
  function_decl<z_number, varname_t> decl("main", {}, {});
  z_cfg_t *cfg = new z_cfg_t("entry", "ret", decl);
  z_basic_block_t &entry = cfg->insert("entry");
  z_basic_block_t &ret = cfg->insert("ret");
  entry >> ret;
  entry.assign(a, 0);
  entry.callsite("f", {r1}, {a});
  entry.assign(b, 10);
  entry.callsite("f", {r2}, {b});
  entry.assign(c, 20);
  entry.callsite("f", {r3}, {c});
  entry.assign(d, 5);
  entry.callsite("f", {r4}, {d});
  return cfg;
}

int main() {
  using callgraph_t = call_graph<z_cfg_ref_t>;
  using analyzer_t = top_down_inter_analyzer<callgraph_t, z_interval_domain_t>;
  variable_factory_t vfac;
  std::unique_ptr<z_cfg_t> f(make_f(vfac));
  std::unique_ptr<z_cfg_t> m(make_main(vfac));
  std::vector<z_cfg_ref_t> cfgs{*f, *m};
  callgraph_t cg(cfgs);

  inter_analyzer_parameters<callgraph_t> params;
  params.run_checker = true;
  params.max_call_contexts = 1;
  z_interval_domain_t top;
  analyzer_t a(cg, top, params);
  a.run(top);
  auto db = a.get_all_checks();
  std::cout << "safe(+unreach)=" << db.get_total_safe()
            << " warning=" << db.get_total_warning()
            << " error=" << db.get_total_error() << "\n";
  // f(5) reaches assert(x <= 0) with x = 5: some check must be a warning/error.
  if (db.get_total_warning() + db.get_total_error() == 0) {
    std::cout << "VIOLATION: the failing assertion in f was only reported "
                 "safe/unreachable\n";
    return 1;
  }
  std::cout << "not observed\n";
  return 0;
}
