// UNCHANGED TREE (independent of patch.diff).
// wrapped_interval::operator|| (and widening_thresholds) is not an upper
// bound of its first argument when the two intervals overlap at both ends
// (jointly cover the circle): the third case returns `x | [...]`, which
// contains x but not *this.
//   [0,10]_8 || [5,2]_8  ==  [5,2]_8   (loses 3 and 4, which are in [0,10])
// Exit status 1 when the violation is observed.
#include <crab/domains/wrapped_interval.hpp>
#include <crab/numbers/wrapint.hpp>
using namespace crab;
using W = crab::domains::wrapped_interval<ikos::z_number>;
int main() {
  W a(wrapint(0, 8), wrapint(10, 8));
  W b(wrapint(5, 8), wrapint(2, 8));
  W w = a || b;
  crab::outs() << a << " || " << b << " = " << w << "\n";
  bool ok = (a <= w) && (b <= w) && w.at(wrapint(3, 8)) && w.at(wrapint(4, 8));
  if (!ok) {
    crab::outs() << "VIOLATION: widening result does not contain its first "
                    "argument\n";
    return 1;
  }
  return 0;
}
