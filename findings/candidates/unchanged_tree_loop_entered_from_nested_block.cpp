// Behaviour of the UNCHANGED tree (observed while exploring, not the seeded
// change; it is borderline with respect to C06, see README.md).
//
// wto_iterator::visit(wto_cycle_t&) builds the first pre-state of a loop head
// from the predecessors "outside the cycle", which it recognises with
//     !(get_nesting(prev) > cycle_nesting)
// A predecessor that sits INSIDE AN EARLIER, SIBLING loop (nesting [A]) also
// satisfies  nesting(prev) > nesting(head) = []  and is therefore left out,
// although it is not part of the cycle of the head.  If it is the only way
// into the loop, the first iteration of the loop runs on bottom and is wasted:
// the loop is extrapolated one join earlier than the same loop entered from a
// block that is not nested in another loop.
//
//   entry: k := 0          A: (head)       a1: (in A)      B: (head)
//   entry -> A,  A -> a1,  a1 -> A,  a1 -> B,  B -> b,  b -> B,  B -> ex
//   b: assume(k != 2); k := k+1          ex: assume(k >= 2)
//
// The join-only iteration of B needs 2 joins ([0,0] -> [0,1] -> [0,2]); with
// widening_delay = 2 the variant "via" (a1 -> m -> B, m not nested) gets
// pre(B)[k] = [0,2] while the variant "direct" (a1 -> B) gets [0,+oo].
//
// exit status 1 when the discrepancy is observed, 0 otherwise.

#include "crab_lang.hpp"

#include <crab/analysis/fwd_analyzer.hpp>
#include <crab/domains/intervals.hpp>
#include <crab/fixpoint/fixpoint_params.hpp>

using namespace crab;
using namespace crab::cfg_impl;
using namespace ikos;

using dom_t = interval_domain<z_number, varname_t>;
using itv_t = interval<z_number>;
using analyzer_t = crab::analyzer::intra_fwd_analyzer<z_cfg_ref_t, dom_t>;
using assumption_map_t = analyzer_t::assumption_map_t;

static z_cfg_t *prog(variable_factory_t &vfac, bool direct) {
  z_var k(vfac["k"], crab::INT_TYPE, 32);
  z_cfg_t *cfg = new z_cfg_t("entry", "ex");
  z_basic_block_t &entry = cfg->insert("entry");
  z_basic_block_t &A = cfg->insert("A");
  z_basic_block_t &a1 = cfg->insert("a1");
  z_basic_block_t &B = cfg->insert("B");
  z_basic_block_t &b = cfg->insert("b");
  z_basic_block_t &ex = cfg->insert("ex");
  entry >> A;
  A >> a1;
  a1 >> A;
  if (direct) {
    a1 >> B;
  } else {
    z_basic_block_t &m = cfg->insert("m");
    a1 >> m;
    m >> B;
  }
  B >> b;
  b >> B;
  B >> ex;
  entry.assign(k, 0);
  b.assume(k != 2);
  b.add(k, k, 1);
  ex.assume(k >= 2);
  return cfg;
}

static itv_t run(bool direct, variable_factory_t &vfac) {
  z_var k(vfac["k"], crab::INT_TYPE, 32);
  crab::fixpoint_parameters params; // widening_delay = 2
  params.get_descending_iterations() = 0;
  dom_t top;
  assumption_map_t no_assumptions;
  z_cfg_t *cfg = prog(vfac, direct);
  analyzer_t a(*cfg, top, nullptr, params);
  a.run(cfg->entry(), top, no_assumptions);
  itv_t res = a.get_pre("B")[k];
  crab::outs() << (direct ? "direct" : "via m ") << ": pre(B)[k] = " << res
               << "   trace: " << a.get_wto() << "\n";
  delete cfg;
  return res;
}

int main() {
  variable_factory_t vfac;
  itv_t via = run(false, vfac);
  itv_t direct = run(true, vfac);
  itv_t want(z_number(0), z_number(2));
  if (via == want && !(direct == want)) {
    crab::outs() << "OBSERVED: the loop entered from a block nested in an "
                    "earlier loop is extrapolated one join too early\n";
    return 1;
  }
  crab::outs() << "not observed\n";
  return 0;
}
