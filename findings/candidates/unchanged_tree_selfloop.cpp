// Behaviour of the UNCHANGED tree (independent of _seed/patch.diff).
//
// split_dbm_domain::close_over_edge, third loop (paths s -> ii -> jj -> d),
// does not skip s == d (split_oct's version does).  When the new edge closes
// a cycle through a third variable, a self loop "z - z <= k" is stored.  The
// self loop is a tautology, but it is an edge: after every other variable has
// been forgotten the value denotes top, yet is_top() is false and
// top <= value is false (operator<= answers false when the left operand is top
// and the right operand is not is_top()).
// Exit status 1 when this is observed.
#include <crab/config.h>
#include <crab/domains/split_dbm.hpp>
#include <crab/numbers/bignums.hpp>
#include <crab/types/varname_factory.hpp>

#include <algorithm>
#include <climits>
#include <cstdio>
#include <string>
#include <vector>

using namespace crab;
using namespace crab::domains;
using namespace ikos;

using variable_factory_t = var_factory_impl::str_variable_factory;
using varname_t = typename variable_factory_t::varname_t;
using z_var = variable<z_number, varname_t>;
using z_lin_exp_t = linear_expression<z_number, varname_t>;
using z_lin_cst_t = linear_constraint<z_number, varname_t>;
using z_interval_t = interval<z_number>;
using graph_t = DBM_impl::DefaultParams<z_number, DBM_impl::GraphRep::adapt_ss>;
using zones_t = split_dbm_domain<z_number, varname_t, graph_t>;

namespace crab {
template <> class variable_name_traits<std::string> {
public:
  static std::string to_string(std::string varname) { return varname; }
};
} // namespace crab


int main() {
  variable_factory_t vfac;
  z_var x(vfac["x"], crab::INT_TYPE, 32);
  z_var y(vfac["y"], crab::INT_TYPE, 32);
  z_var z(vfac["z"], crab::INT_TYPE, 32);

  zones_t d;
  d += z_lin_cst_t(z_lin_exp_t(x) - z_lin_exp_t(z) <= z_number(1));
  d += z_lin_cst_t(z_lin_exp_t(z) - z_lin_exp_t(y) <= z_number(2));
  d += z_lin_cst_t(z_lin_exp_t(y) - z_lin_exp_t(x) <= z_number(3));
  crab::outs() << "closed value: " << d << "\n";
  d -= x;
  d -= y;
  zones_t top;
  bool is_top = d.is_top();
  bool top_leq = (top <= d);
  crab::outs() << "after forgetting x and y: " << d << "  is_top=" << is_top
               << "  top<=value=" << top_leq << "\n";
  if (!is_top || !top_leq) {
    crab::outs() << "VIOLATION: forget left a value that denotes top but is "
                    "not recognised as top\n";
    return 1;
  }
  crab::outs() << "ok\n";
  return 0;
}
