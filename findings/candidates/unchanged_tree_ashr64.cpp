// UNCHANGED TREE (independent of patch.diff).
// wrapint::ashr at width 64 with shift amount 0 and a negative operand
// evaluates `all_ones << (64 - 0)`, a shift by the full width (undefined
// behaviour; on x86-64 it leaves all_ones unchanged), so the result is
// 0xFFFF...F instead of the operand itself.
// Exit status 1 when the violation is observed.
#include <crab/numbers/wrapint.hpp>
#include <crab/support/os.hpp>
#include <cstdint>
using namespace crab;
int main() {
  volatile uint64_t zero = 0; // keep the shift amount out of constant folding
  wrapint v((uint64_t)0x8000000000000000ULL, 64);
  wrapint r = v.ashr(wrapint((uint64_t)zero, 64));
  crab::outs() << "ashr_64(" << v << ", 0) = " << r << "\n";
  if (r.get_uint64_t() != v.get_uint64_t()) {
    crab::outs() << "VIOLATION: x >>a 0 != x at width 64\n";
    return 1;
  }
  return 0;
}
