// UNCHANGED TREE (independent of patch.diff).
// At width 64, INT64_MIN /s -1 should wrap to INT64_MIN (arithmetic modulo
// 2^64).  wrapint::sdiv computes the quotient 2^63 as a big integer and then
// builds a wrapint from it; the constructor rejects every z_number that does
// not fit int64_t and calls CRAB_ERROR, which terminates the process with
// EXIT_FAILURE (so this program exits with status 1 from inside the library).
// The same constructor makes the round trip
//   wrapint(UINT64_MAX,64).get_unsigned_bignum() -> wrapint(z,64)
// impossible for any unsigned value >= 2^63.
#include <crab/numbers/wrapint.hpp>
#include <crab/support/os.hpp>
#include <cstdint>
using namespace crab;
int main() {
  wrapint smin = wrapint::get_signed_min(64);
  wrapint m1(UINT64_MAX, 64);
  wrapint r = smin.sdiv(m1); // CRAB_ERROR -> exit(1)
  crab::outs() << "INT64_MIN /s -1 = " << r << "\n";
  return (r == smin) ? 0 : 1;
}
