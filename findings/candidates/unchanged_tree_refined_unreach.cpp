// UNCHANGED-TREE observation (not the seeded change).
//
// intra_forward_backward_analyzer with
//   params.enable_backward() = true; params.get_use_refined_invariants() = true
//
//   entry: havoc(x); havoc(w);
//   bt:    assume(x >= 1); y := 1;
//   bf:    assume(x <= 0); y := 0;
//   join:  assume(y >= 1); assert(x >= 1);   // holds, and IS reached (x = 1)
//   other: assert(w >= 0);                    // may fail: keeps entry non-bottom
//   ret:
//   entry -> bt, bf, other ; bt,bf -> join ; join, other -> ret
//
// The backward refinement makes the assumptions of bt, bf and join bottom
// (no error is reachable through them). With use_refined_invariants the
// analyzer publishes the *refined* forward invariants, so the invariant of
// 'join' is bottom; its assertion is not strictly dominated by a bottom block,
// so it is not in the "proved by backward analysis" set and the checker
// classifies it as UNREACHABLE, although the execution x = 1 reaches it.
// (The assertion does hold, so only the literal "unreachable => never
// reached" clause is contradicted.)
//
// exit status: 1 = observed, 0 = not observed.

#include "crab_dom.hpp"
#include "crab_lang.hpp"

#include <crab/analysis/bwd_analyzer.hpp>
#include <crab/checkers/assertion.hpp>
#include <crab/checkers/checker.hpp>

#include <iostream>
#include <memory>

using namespace crab;
using namespace crab::analyzer;
using namespace crab::cfg;
using namespace crab::cfg_impl;
using namespace crab::domain_impl;
using namespace crab::checker;

int main() {
  variable_factory_t vfac;
  z_var x(vfac["x"], crab::INT_TYPE, 32);
  z_var y(vfac["y"], crab::INT_TYPE, 32);
  z_var w(vfac["w"], crab::INT_TYPE, 32);
  std::unique_ptr<z_cfg_t> cfg(new z_cfg_t("entry", "ret"));
  z_basic_block_t &entry = cfg->insert("entry");
  z_basic_block_t &bt = cfg->insert("bt");
  z_basic_block_t &bf = cfg->insert("bf");
  z_basic_block_t &join = cfg->insert("join");
  z_basic_block_t &other = cfg->insert("other");
  z_basic_block_t &ret = cfg->insert("ret");
  entry >> bt;
  entry >> bf;
  entry >> other;
  bt >> join;
  bf >> join;
  join >> ret;
  other >> ret;
  entry.havoc(x);
  entry.havoc(w);
  bt.assume(x >= 1);
  bt.assign(y, 1);
  bf.assume(x <= 0);
  bf.assign(y, 0);
  join.assume(y >= 1);
  join.assertion(x >= 1, crab::cfg::debug_info("demo.c", 10, 1, 1));
  other.assertion(w >= 0, crab::cfg::debug_info("demo.c", 20, 1, 2));

  using analyzer_t =
      intra_forward_backward_analyzer<z_cfg_ref_t, z_interval_domain_t>;
  using checker_t = intra_checker<analyzer_t>;
  using prop_t = assert_property_checker<analyzer_t>;

  z_interval_domain_t top;
  analyzer_t a(*cfg, top);
  typename analyzer_t::assumption_map_t assumptions;
  crab::fixpoint_parameters fixpo_params;
  fwd_bwd_parameters params;
  params.enable_backward() = true;
  params.get_use_refined_invariants() = true;
  a.run(cfg->entry(), top, assumptions, nullptr, fixpo_params, params);

  typename checker_t::prop_checker_ptr prop(new prop_t(0));
  checker_t checker(a, {prop});
  checker.run();
  auto db = checker.get_all_checks();
  crab::cfg::debug_info di("demo.c", 10, 1, 1);
  if (!db.has_checks(di)) {
    std::cout << "no verdict recorded\n";
    return 0;
  }
  bool unreach = false;
  for (auto k : db.get_checks(di)) {
    unreach |= (k == check_kind::CRAB_UNREACH);
  }
  if (unreach) {
    std::cout << "OBSERVED: assertion in 'join' is reported unreachable but "
                 "x = 1 reaches it\n";
    return 1;
  }
  std::cout << "not observed\n";
  return 0;
}
