#include "crab_lang.hpp"
#include "crab_dom.hpp"
#include <crab/analysis/fwd_analyzer.hpp>
using namespace crab::cfg_impl;
using namespace crab::domain_impl;
using namespace ikos;
using dom_t = z_bool_interval_domain_t;
using interval_t = ikos::interval<z_number>;
using analyzer_t = crab::analyzer::intra_fwd_analyzer<z_cfg_ref_t, dom_t>;

static void probe1() {
  variable_factory_t vfac;
  z_var x(vfac["x"], crab::INT_TYPE, 32);
  z_var b(vfac["b"], crab::BOOL_TYPE, 1);
  z_var c(vfac["c"], crab::BOOL_TYPE, 1);
  dom_t d;
  d.assign(x, z_number(0));
  d.assign_bool_cst(b, x <= z_number(3));
  d.assign(x, z_number(10));
  d.assign_bool_cst(c, x >= z_number(0));
  d.assume_bool(b, false);
  crab::outs() << "probe1 (x:=0;b:=(x<=3);x:=10;c:=(x>=0);assume(b)) = " << d << "  [concrete: x=10 reachable]\n";
}

static void probe2(unsigned narrowing) {
  variable_factory_t vfac;
  z_var y(vfac["y"], crab::INT_TYPE, 32);
  z_var i(vfac["i"], crab::INT_TYPE, 32);
  z_var w(vfac["w"], crab::INT_TYPE, 32);
  z_var b(vfac["b"], crab::BOOL_TYPE, 1);
  auto cfg = new z_cfg_t("entry", "exit");
  z_basic_block_t &entry = cfg->insert("entry");
  z_basic_block_t &head = cfg->insert("head");
  z_basic_block_t &body = cfg->insert("body");
  z_basic_block_t &use = cfg->insert("use");
  z_basic_block_t &skip = cfg->insert("skip");
  z_basic_block_t &merge = cfg->insert("merge");
  z_basic_block_t &redef = cfg->insert("redef");
  z_basic_block_t &keep = cfg->insert("keep");
  z_basic_block_t &exit = cfg->insert("exit");
  entry >> head; head >> body; head >> exit; body >> use; body >> skip;
  use >> merge; skip >> merge; merge >> redef; merge >> keep; redef >> head; keep >> head;
  entry.havoc(y); entry.assume(y >= z_number(0)); entry.assume(y <= z_number(10));
  entry.havoc(w); entry.assume(w >= z_number(0)); entry.assume(w <= z_number(3));
  entry.assign(i, z_number(0));
  entry.bool_assign(b, y <= z_number(3));
  body.add(i, i, z_number(1));
  use.assume(i >= z_number(4)); use.bool_assume(b); use.assign(w, y);
  skip.assume(i <= z_number(3));
  redef.assume(i >= z_number(3)); redef.bool_assign(b, y <= z_number(100));
  keep.assume(i <= z_number(2));
  dom_t init;
  crab::fixpoint_parameters params;
  params.get_widening_delay() = 1;
  params.get_descending_iterations() = narrowing;
  params.get_max_thresholds() = 0;
  analyzer_t a(*cfg, init.make_top(), nullptr, params);
  typename analyzer_t::assumption_map_t assumptions;
  a.run(cfg->entry(), init, assumptions);
  for (std::string bb : {"head", "merge", "exit"}) {
    dom_t inv = a[bb];
    crab::outs() << "probe2 narrowing=" << narrowing << " " << bb << ": " << inv << "  [concrete: y=7,w=7 reachable]\n";
  }
  delete cfg;
}

template<typename N>
static void probe3(const char*name, bool rational) {
  using di_t = crab::domains::dis_interval<N>;
  using itv = ikos::interval<N>;
  di_t x = di_t(itv(N(0))) | di_t(itv(N(5))) | di_t(itv(N(1000000)));
  unsigned k, stable_at = 0;
  N ub(5);
  N half(1);
  for (k = 1; k <= 2000; ++k) {
    if (rational) { half = half / N(2); ub = N(100) - half; } else { ub = ub + N(1); }
    di_t y = di_t(itv(N(0))) | di_t(itv(N(5), ub)) | di_t(itv(N(1000000)));
    if (y <= x) { stable_at = k; break; }
    x = x || y;
  }
  crab::outs() << "probe3 " << name << ": ";
  if (stable_at) crab::outs() << "stationary at step " << stable_at; else crab::outs() << "NOT stationary after " << (k-1) << " widening steps";
  crab::outs() << "\n";
}

int main() {
  crab::CrabEnableWarningMsg(false);
  probe1();
  probe2(0); probe2(1); probe2(2);
  probe3<z_number>("dis_interval<z_number>", false);
  probe3<q_number>("dis_interval<q_number>", true);
  return 0;
}
