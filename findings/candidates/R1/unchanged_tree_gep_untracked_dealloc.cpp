// C15 violation (deallocation analysis): region_domain::ref_gep.  When the
// source region of a ref_gep is not tracked in m_rgn_equiv_classes (a region
// that is an input of the code under analysis, i.e. no region_init, or a
// region that was forgotten) and the destination region is tracked, the
// destination keeps its "no freed object" flag (the code that dropped the
// class is commented out), although the new reference may point to memory
// that was already freed through the untracked source region.
// is_unfreed_or_null then answers a definite `true`.
//
// needs region.deallocation=true (non-default) and a region without
// region_init (unusual but legal: regions received from the caller).
#include "../tests/common.hpp"
using namespace crab::cfg;
using namespace crab::cfg_impl;
using namespace crab::domain_impl;
using namespace ikos;
using namespace crab::domains;
typedef z_rgn_bool_int_t Dom;

int main() {
  region_domain_params p(true, true /*deallocation*/, true, false, true);
  crab_domain_params_man::get().update_params(p);
  variable_factory_t vfac;
  z_var Rin(vfac["Rin"], crab::REG_INT_TYPE, 32); // input region
  z_var R2(vfac["R2"], crab::REG_INT_TYPE, 32);
  z_var p1(vfac["p"], crab::REF_TYPE, 32);        // input reference into Rin
  z_var q(vfac["q"], crab::REF_TYPE, 32);
  z_var b(vfac["b"], crab::BOOL_TYPE, 1);

  //   region_init(R2);
  //   assume(p != NULL);
  //   free(Rin, p);
  //   (R2, q) := gep(Rin, p, 0);       // q == p : dangling
  //   b := is_unfreed_or_null(R2, q);  // concretely b == false
  Dom inv;
  inv.region_init(R2);
  inv.ref_assume(z_ref_cst_t::mk_gt_null(p1));
  inv.ref_free(Rin, p1);
  inv.ref_gep(p1, Rin, q, R2, z_lin_exp_t(z_number(0)));
  inv.intrinsic("is_unfreed_or_null", {z_var_or_cst_t(R2), z_var_or_cst_t(q)},
                {b});
  crab::outs() << inv << "\n";
  Dom t(inv);
  t.assume_bool(b, true /*negated*/);
  if (t.is_bottom()) {
    crab::outs() << "VIOLATION: b is definitely true but q points to the "
                    "object freed through p\n";
    return 1;
  }
  return 0;
}
