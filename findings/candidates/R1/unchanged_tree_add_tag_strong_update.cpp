// C15 violation (tag analysis, DEFAULT parameters): add_tag(rgn, ref, T) joins
// T into the tags of the region but leaves the region "uninitialised"
// (Init=false).  region_domain::ref_store performs a STRONG update on an
// uninitialised region even when the region has several references, and the
// strong update REPLACES the tags of the region by the tags of the stored
// value.  A store through another reference r2 of the region therefore erases
// the tag that was attached to the data pointed to by r1:
// does_not_have_tag(rgn, r1, T) becomes definitely true and get_tags() reports
// the empty set.
#include "../tests/common.hpp"
using namespace crab::cfg;
using namespace crab::cfg_impl;
using namespace crab::domain_impl;
using namespace ikos;
using namespace crab::domains;
typedef z_rgn_bool_int_t Dom;

int main() {
  region_domain_params p; // defaults: tag_analysis=true
  crab_domain_params_man::get().update_params(p);
  variable_factory_t vfac;
  crab::tag_manager as_man;
  z_var_or_cst_t size4(z_number(4), crab::variable_type(crab::INT_TYPE, 32));
  z_var_or_cst_t T1(z_number(1), crab::variable_type(crab::INT_TYPE, 32));
  z_var R(vfac["R"], crab::REG_INT_TYPE, 32);
  z_var r1(vfac["r1"], crab::REF_TYPE, 32);
  z_var r2(vfac["r2"], crab::REF_TYPE, 32);
  z_var v(vfac["v"], crab::INT_TYPE, 32);
  z_var b(vfac["b"], crab::BOOL_TYPE, 1);

  //   r1 := make_ref(R); r2 := make_ref(R);     two different cells of R
  //   add_tag(R, r1, TAG_1);
  //   v := 5; *r2 := v;
  //   b := does_not_have_tag(R, r1, TAG_1);     concretely b == false
  Dom inv;
  inv.region_init(R);
  inv.ref_make(r1, R, size4, as_man.mk_tag());
  inv.ref_make(r2, R, size4, as_man.mk_tag());
  inv.intrinsic("add_tag", {z_var_or_cst_t(R), z_var_or_cst_t(r1), T1}, {});
  inv.assign(v, z_number(5));
  inv.ref_store(r2, R, z_var_or_cst_t(v));
  inv.intrinsic("does_not_have_tag",
                {z_var_or_cst_t(R), z_var_or_cst_t(r1), T1}, {b});
  std::vector<uint64_t> tags;
  bool known = inv.get_tags(R, r1, tags);
  bool has1 = false;
  for (auto t : tags) if (t == 1) has1 = true;
  crab::outs() << inv << " get_tags known=" << known << " contains TAG_1=" << has1 << "\n";
  Dom t(inv);
  t.assume_bool(b, true /*negated*/);
  if (t.is_bottom() || (known && !has1)) {
    crab::outs() << "VIOLATION: the data pointed to by r1 carries TAG_1 but "
                    "the domain says it definitely does not\n";
    return 1;
  }
  return 0;
}
