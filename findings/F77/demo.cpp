// Behaviour of the UNCHANGED tree that already violates C12 (meet of zones is
// exact, for all closure-related domain parameters).
//
// With zones.close_bounds_inline=true, split_dbm_domain::operator& only
// propagates variable bounds along the edges that the closure ADDED (delta);
// a bound of one operand is not pushed through a relation that the other
// operand already had.
//
//   {a <= 5}  meet  {b - a <= 0}   must entail  b <= 5
//
// Exit status 1 when the violation is observed.
#include "crab_lang.hpp"
#include "crab_dom.hpp"

using namespace crab::cfg_impl;
using namespace crab::domain_impl;
using namespace ikos;

static int run(bool inline_bounds) {
  crab::domains::crab_domain_params_man::get().set_param(
      "zones.close_bounds_inline", inline_bounds ? "true" : "false");
  variable_factory_t vfac;
  z_var a(vfac["a"], crab::INT_TYPE, 32);
  z_var b(vfac["b"], crab::INT_TYPE, 32);
  z_sdbm_domain_t l, r;
  l += (z_lin_exp_t(a) <= z_number(5));
  r += (z_lin_exp_t(b) - z_lin_exp_t(a) <= z_number(0));
  z_sdbm_domain_t m = l & r;
  crab::outs() << "close_bounds_inline=" << inline_bounds << ": " << l
               << " & " << r << " = " << m << "\n";
  if (!m.entails(z_lin_exp_t(b) <= z_number(5))) {
    crab::outs() << "VIOLATION: b <= 5 is implied but not entailed\n";
    return 1;
  }
  return 0;
}

int main() {
  int bad = 0;
  bad |= run(false);
  bad |= run(true);
  return bad;
}
