// Behaviour of the UNCHANGED tree (independent of _seed/patch.diff).
//
// crab::domains::discrete_pair_domain<Key,Value> (discrete_domains.hpp) is a
// set of pairs in which a missing key denotes the bottom Value ("Bottom means
// empty set rather than failure"; domain_po::default_is_top() == false, and
// operator[] returns Value::bottom() for a missing key).  The pointwise meet
// of
//      x = { k1 -> {a}, k2 -> {c} }        y = { k1 -> {b}, k2 -> {c} }
// is   { k1 -> {} , k2 -> {c} }, i.e. (x & y)[k2] must be {c}.  meet_op::apply
// however reports "bottom" to the patricia-tree merge as soon as ONE key meets
// to bottom, merge_with() then aborts, and operator& returns the empty set of
// pairs: the binding of k2 is lost and (x & y)[k2] == {}.  So the meet is not
// the pointwise one (and x & y is not even the greatest lower bound:
// { k2 -> {c} } is a lower bound of x and y that is not below the result).
//
// Exit status 1 when the deviation is observed, 0 otherwise.
//
// Build:
//   g++ -std=c++11 -O1 -w -I$ROOT/include -I$ROOT/_build/include \
//       $ROOT/_seed/unchanged_tree_discrete_pair_meet.cpp \
//       $ROOT/_build/lib/libCrab.a -lgmp -o unchanged_tree_discrete_pair_meet

#include <crab/domains/discrete_domains.hpp>
#include <crab/domains/patricia_trees.hpp>
#include <crab/types/indexable.hpp>

#include <cstdio>

namespace {
class elem_t : public crab::indexable {
  ikos::index_t m_id;

public:
  explicit elem_t(ikos::index_t id) : m_id(id) {}
  ikos::index_t index() const override { return m_id; }
  void write(crab::crab_os &o) const override {
    o << "e" << (unsigned long)m_id;
  }
  bool operator<(const elem_t &o) const { return m_id < o.m_id; }
  bool operator==(const elem_t &o) const { return m_id == o.m_id; }
};
} // namespace

int main() {
  using set_t = ikos::discrete_domain<elem_t>;
  using pairs_t = crab::domains::discrete_pair_domain<elem_t, set_t>;

  pairs_t x, y;
  x.set(elem_t(1), set_t(elem_t(10)));
  x.set(elem_t(2), set_t(elem_t(30)));
  y.set(elem_t(1), set_t(elem_t(20)));
  y.set(elem_t(2), set_t(elem_t(30)));

  pairs_t m = x & y;
  set_t expected_k2 = x[elem_t(2)] & y[elem_t(2)]; // {e30}
  set_t got_k2 = m[elem_t(2)];

  pairs_t lower; // { k2 -> {e30} } is below both x and y
  lower.set(elem_t(2), set_t(elem_t(30)));
  bool lower_ok = (lower <= x) && (lower <= y);
  bool glb_ok = (lower <= m);

  crab::outs() << "x = " << x << "\ny = " << y << "\nx & y = " << m << "\n";
  crab::outs() << "(x & y)[k2] = " << got_k2 << "   pointwise: " << expected_k2
               << "\n";
  if (!(got_k2 == expected_k2) || (lower_ok && !glb_ok)) {
    std::printf("deviation observed: meet is not pointwise\n");
    return 1;
  }
  std::printf("meet is pointwise\n");
  return 0;
}
