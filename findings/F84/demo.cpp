// F84 (C04): term_domain::operator<= maps the terms of the variables of the LEFT operand only ("Assumption: the set of
// variables in left & right are common").  A variable the left operand says nothing about (havocked / never assigned) is
// skipped, so the constraints the right operand has on it are ignored and the inclusion test answers yes although the left
// operand describes states the right one excludes.
// build: g++ -w -std=c++11 -O1 -DNDEBUG -I/repo/include -I/repo/_build/include -I/repo/tests demo.cpp <libCrab.a> -lgmp -o demo
#include "crab_lang.hpp"
#include "crab_dom.hpp"
#include <crab/domains/uf_domain.hpp>
using namespace crab::cfg_impl;
using namespace crab::domain_impl;
using namespace ikos;
template <class Dom> int run(const char *name) {
  variable_factory_t vfac;
  z_var x(vfac["x"], crab::INT_TYPE, 32), y(vfac["y"], crab::INT_TYPE, 32);
  Dom left, right;
  left.assign(y, z_number(1));                       // left : y = 1, x unknown
  right.assign(y, z_number(1));                      // right: y = 1, 0 <= x <= 5
  right += (x >= z_number(0)); right += (x <= z_number(5));
  bool leq = left <= right;
  Dom probe(left); probe += (x == z_number(9));      // x = 9, y = 1 is a state of left ...
  Dom probe2(right); probe2 += (x == z_number(9));   // ... and not a state of right
  crab::outs() << name << ": left = " << left << "  right = " << right << "\n   left <= right: " << leq
               << "   (x=9,y=1) in left: " << !probe.is_bottom() << "  in right: " << !probe2.is_bottom() << "\n";
  return (leq && !probe.is_bottom() && probe2.is_bottom()) ? 1 : 0;
}
// F85: the same loop in uf_domain::operator<=: left says nothing about x, right says x == y
int run_uf() {
  typedef crab::domains::uf_domain<z_number, varname_t> uf_t;
  variable_factory_t vfac;
  z_var x(vfac["x"], crab::INT_TYPE, 32), y(vfac["y"], crab::INT_TYPE, 32), a(vfac["a"], crab::INT_TYPE, 32), b(vfac["b"], crab::INT_TYPE, 32);
  uf_t left, right;
  left.apply(OP_MULTIPLICATION, y, a, b);            // left : y = a*b
  right.apply(OP_MULTIPLICATION, y, a, b);           // right: y = a*b and x = y
  right.assign(x, z_lin_exp_t(y));
  bool leq = left <= right;
  auto lc = left.to_linear_constraint_system(), rc = right.to_linear_constraint_system();
  crab::outs() << "uf: left = " << left << " (equalities: " << lc << ")  right = " << right << " (equalities: " << rc << ")\n   left <= right: " << leq << "\n";
  return (leq && lc.is_true() && !rc.is_true()) ? 1 : 0;
}
int main() {
  int bad = run<z_term_domain_t>("term(intervals)") + run<z_term_dbm_t>("term(zones)") + run<z_term_dis_int_t>("term(dis_intervals)") + run_uf();
  crab::outs() << (bad ? "UNSOUND: the inclusion test answered yes for a pair that is not included\n" : "ok\n");
  return bad ? 1 : 0;
}
