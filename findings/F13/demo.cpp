// F13 (C19/C04): patricia tree::compare (inclusion test of separate_domain / interval_domain environments):
// a single-binding tree against a single-binding tree with a DIFFERENT key answered "included" when the default
// value is top, although the right operand constrains a variable that the left one leaves unconstrained.
#include <crab/config.h>
#include <crab/domains/interval.hpp>
#include <crab/domains/intervals.hpp>
#include <crab/types/varname_factory.hpp>
#include <crab/types/variable.hpp>
#include <crab/support/os.hpp>
namespace crab {
template <> class variable_name_traits<std::string> {
public:
  static std::string to_string(std::string varname) { return varname; }
};
} // namespace crab
using namespace crab; using namespace ikos;
typedef crab::var_factory_impl::str_variable_factory vfac_t;
typedef vfac_t::varname_t varname_t;
typedef crab::variable<z_number, varname_t> var_t;
typedef ikos::interval_domain<z_number, varname_t> dom_t;
typedef interval<z_number> itv_t;
int main() {
  vfac_t vf;
  int bad = 0;
  // try several pairs of distinct variables so that different key bit patterns are exercised
  std::vector<var_t> vs;
  for (int i = 0; i < 12; i++) vs.push_back(var_t(vf["v" + std::to_string(i)], crab::INT_TYPE, 32));
  for (unsigned i = 0; i < vs.size(); i++) for (unsigned j = 0; j < vs.size(); j++) {
    if (i == j) continue;
    dom_t a, b;               // a = {vi -> [1,3]},  b = {vj -> [2,2]}
    a.set(vs[i], itv_t(z_number(1), z_number(3)));
    b.set(vs[j], itv_t(z_number(2), z_number(2)));
    // a allows vj = 7, b does not: a <= b must be false
    if (a <= b) { if (bad < 3) crab::outs() << "FAIL: " << a << " <= " << b << " answered true\n"; bad++; }
  }
  crab::outs() << (bad ? "FAILED" : "PASS") << " (" << bad << " wrong inclusion answers)\n";
  return bad ? 1 : 0;
}
