// Behaviour of the UNCHANGED tree that already violates C18 (assertion
// crawler part, inter-procedural driver).
//
//   f(n) -> (r):
//     entry:  assert(n >= 0);                      goto rec or base
//     rec:    assume(n >= 1); m := n - 1; (t) := f(m); r := t + 1;   goto exit
//     base:   assume(n <= 0); r := 0;                                goto exit
//     exit:   assert(r >= 0);
//   main():
//     entry:  havoc(a); (b) := f(a); assert(b >= 0);
//
// inter_assertion_crawler::run() re-analyzes every member of a recursive SCC
// until the results stabilise, each time with a fresh intra-procedural
// assertion_crawler but with the SAME assert_map.  process_assertion() only
// emits the fact <assertion, uses> when the assertion is not yet in
// assert_map, so from the second round on the assertions of f are not
// generated any more; the round-2 results (which replace the round-1 results)
// only contain what comes back through the summary at the recursive call
// site.  As a consequence block "exit" of f, which CONTAINS assert(r >= 0),
// and block "base", which reaches it, list no assertion at all.
//
// Exit status 1 when the violation is observed, 0 otherwise.

#include "crab_lang.hpp"
#include <crab/analysis/dataflow/assertion_crawler.hpp>

#include <iostream>

using namespace crab::cfg;
using namespace crab::cg;
using namespace crab::cfg_impl;

int main() {
  variable_factory_t vfac;
  z_var n(vfac["n"], crab::INT_TYPE, 32), r(vfac["r"], crab::INT_TYPE, 32),
      m(vfac["m"], crab::INT_TYPE, 32), t(vfac["t"], crab::INT_TYPE, 32);
  z_cfg_t f("entry", "exit",
            function_decl<ikos::z_number, varname_t>("f", {n}, {r}));
  z_basic_block_t &entry = f.insert("entry");
  z_basic_block_t &rec = f.insert("rec");
  z_basic_block_t &base = f.insert("base");
  z_basic_block_t &exit = f.insert("exit");
  entry >> rec;
  entry >> base;
  rec >> exit;
  base >> exit;
  entry.assertion(n >= 0);
  rec.assume(n >= 1);
  rec.sub(m, n, 1);
  rec.callsite("f", {t}, {m});
  rec.add(r, t, 1);
  base.assume(n <= 0);
  base.assign(r, 0);
  exit.assertion(r >= 0);

  z_var a(vfac["a"], crab::INT_TYPE, 32), b(vfac["b"], crab::INT_TYPE, 32);
  z_cfg_t mn("entry", "entry",
             function_decl<ikos::z_number, varname_t>("main", {}, {}));
  z_basic_block_t &me = mn.insert("entry");
  me.havoc(a);
  me.callsite("f", {b}, {a});
  me.assertion(b >= 0);

  using callgraph_t = call_graph<z_cfg_ref_t>;
  std::vector<z_cfg_ref_t> cfgs({mn, f});
  callgraph_t cg(cfgs);
  crab::analyzer::inter_assertion_crawler<callgraph_t> crawler(cg);
  crawler.run();

  // the assert statement of block exit
  typename z_cfg_ref_t::statement_t *exit_assert = nullptr;
  for (auto &st : boost::make_iterator_range(exit.begin(), exit.end())) {
    if (st.is_assert())
      exit_assert = &st;
  }

  int errors = 0;
  for (auto l : {"entry", "rec", "base", "exit"}) {
    auto res = crawler.get_results(f, l);
    crab::outs() << "f:" << l << " = " << res << "\n";
    if (res.is_top())
      continue;
    bool found = false;
    for (auto kv : res) {
      if (&(kv.first.get()) == exit_assert) {
        found = true;
        if (std::string(l) == "exit" && !kv.second.is_top()) {
          // at the entry of exit the condition r >= 0 depends on r
          auto vars = kv.second;
          if (!vars.contain(r)) {
            std::cout << "VIOLATION: at f:exit assert(r>=0) does not depend "
                         "on r\n";
            ++errors;
          }
        }
      }
    }
    if (!found) {
      // every block of f reaches block exit
      std::cout << "VIOLATION: f:" << l
                << " reaches assert(r >= 0) but does not list it\n";
      ++errors;
    }
  }
  if (errors)
    return 1;
  std::cout << "OK\n";
  return 0;
}
