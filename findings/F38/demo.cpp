// F38/F39/F40 (C03): build with
//   g++ -w -std=c++11 -O1 -I/repo/include -I/repo/_build/include -I/repo/tests demo.cpp /repo/_build/lib/libCrab.a -lgmp
// flat_boolean_numerical_domain keeps, per Boolean b, facts "if b is true then
// C holds" (m_bool_to_lincsts) and "if b is true then b' is true"
// (m_bool_to_bools).  A cached fact must not survive a change of the variables
// it mentions.
//  P1 (F38): x:=0; b:=(x<=3); x:=10; c:=(x>=0); assume(b)
//     defining c re-marks x as "unchanged", which re-validates b's stale x<=3.
//  P2 (F39): a:=0; y:=(a<=0); x:=y; y:=(a>=5); assume(x)
//     x -> {y} survives the redefinition of y; assume(x) then assumes the NEW y.
//  P4 (F41): backward_assign_bool_cst does not forget the Boolean in the product.
//  P3 (F40): dual_set_domain::at(e) answers "set is a subset of {e}" instead of
//     "e is in the set": forgetting y does not remove it from x -> {y,z}.
#include "crab_lang.hpp"
#include "crab_dom.hpp"
using namespace crab::cfg_impl;
using namespace crab::domain_impl;
using namespace ikos;
using dom_t = z_bool_interval_domain_t;
static int bad = 0;
static void expect_not_bottom(const char *name, dom_t &d) {
  crab::outs() << name << " = " << d << "\n";
  if (d.is_bottom()) { crab::outs() << "  UNSOUND: concrete state reachable but bottom\n"; bad++; }
}
int main() {
  variable_factory_t vfac;
  z_var x(vfac["x"], crab::INT_TYPE, 32), a(vfac["a"], crab::INT_TYPE, 32);
  z_var b(vfac["b"], crab::BOOL_TYPE, 1), c(vfac["c"], crab::BOOL_TYPE, 1);
  z_var y(vfac["y"], crab::BOOL_TYPE, 1), z(vfac["z"], crab::BOOL_TYPE, 1), p(vfac["p"], crab::BOOL_TYPE, 1);
  { dom_t d;
    d.assign(x, z_number(0));
    d.assign_bool_cst(b, x <= z_number(3));
    d.assign(x, z_number(10));
    d.assign_bool_cst(c, x >= z_number(0));
    d.assume_bool(b, false);
    expect_not_bottom("P1", d); }
  { dom_t d;
    d.assign(a, z_number(0));
    d.assign_bool_cst(y, a <= z_number(0));
    d.assign_bool_var(p, y, false);
    d.assign_bool_cst(y, a >= z_number(5));
    d.assume_bool(p, false);
    expect_not_bottom("P2", d); }
  { dom_t d;
    d.assign(a, z_number(0));
    d.assign_bool_cst(y, a <= z_number(0));
    d.assign_bool_cst(z, a <= z_number(1));
    d.apply_binary_bool(crab::domains::OP_BAND, p, y, z);  // p -> {y,z}
    d -= y;                                                // forget y
    d.assign_bool_cst(y, a >= z_number(5));                // y false now
    d.assume_bool(p, false);
    expect_not_bottom("P3", d); }
  { // P4 (F41): backward b := (x<=3) from the postcondition "b is true": the
    // precondition must not constrain the OLD value of b.
    dom_t d, inv;
    d.assign_bool_cst(b, z_lin_cst_t::get_true());
    d.backward_assign_bool_cst(b, x <= z_number(3), inv);
    d.assume_bool(b, true);   // old b == false is a possible pre-state
    expect_not_bottom("P4", d); }
  { // P5 (F38, second site): expand(x, yy) redefines yy but leaves it marked as unchanged.
    dom_t d;
    z_var yy(vfac["yy"], crab::INT_TYPE, 32);
    d += (yy >= z_number(0)); d += (yy <= z_number(10));
    d.assign_bool_cst(b, yy <= z_number(7));      // b unknown, b -> yy<=7
    d.assign(x, z_number(20));
    d.assign_bool_cst(c, x >= z_number(0));       // x unchanged
    d.expand(x, yy);                              // yy := copy of x (20)
    d.assume_bool(b, false);                      // must not add yy<=7
    expect_not_bottom("P5", d); }
  return bad ? 1 : 0;
}
