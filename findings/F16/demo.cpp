// F16 (C11, C02): build with  g++ -std=c++11 -O1 -I/repo/include -I/repo/_build/include -I/repo/tests demo.cpp /repo/_build/lib/libCrab.a -lgmp
// before the fix both assertions are reported SAFE by the forward+backward analyzer (exit 1); after it they are warnings (exit 0).
// candidate (C11/C02): backward transformer has empty exec() for region statements, including those that DEFINE a variable.
//   entry: region_init(M); p := make_ref(M); x := 5; havoc(v); store_to_ref(p, M, v);  x := load_from_ref(p, M);  assert(x >= 1)
// v is unconstrained, so *p can be 0 and the assertion can fail.
#include "crab_lang.hpp"
#include "crab_dom.hpp"
#include <crab/analysis/bwd_analyzer.hpp>
#include <crab/checkers/assertion.hpp>
#include <crab/checkers/checker.hpp>
using namespace crab; using namespace crab::cfg_impl; using namespace crab::domain_impl; using namespace ikos;
typedef z_rgn_int_t dom_t;
typedef crab::analyzer::intra_forward_backward_analyzer<z_cfg_ref_t, dom_t> analyzer_t;
static int second();
int main() {
  crab::CrabEnableWarningMsg(false);
  int rc2 = second();
  variable_factory_t vfac;
  z_var x(vfac["x"], crab::INT_TYPE, 32), v(vfac["v"], crab::INT_TYPE, 32);
  z_var p(vfac["p"], crab::REF_TYPE);
  z_var M(vfac["M"], crab::REG_INT_TYPE, 32);
  crab::tag_manager as_man;
  z_var_or_cst_t size4(z_number(4), crab::variable_type(crab::INT_TYPE, 32));
  z_cfg_t cfg("entry", "exit");
  z_basic_block_t &entry = cfg.insert("entry"); z_basic_block_t &exit = cfg.insert("exit");
  entry >> exit;
  entry.region_init(M);
  entry.make_ref(p, M, size4, as_man.mk_tag());
  entry.assign(x, 5);
  entry.havoc(v);
  entry.store_to_ref(p, M, v);
  entry.load_from_ref(x, p, M);
  exit.assertion(x >= 1);
  z_cfg_ref_t ref(cfg);
  dom_t top;
  analyzer_t a(ref, top);
  analyzer_t::assumption_map_t assumptions;
  crab::fixpoint_parameters fp; crab::analyzer::fwd_bwd_parameters params; params.enable_backward() = true;
  a.run(cfg.entry(), top, assumptions, nullptr, fp, params);
  typedef crab::checker::intra_checker<analyzer_t> checker_t;
  typedef crab::checker::assert_property_checker<analyzer_t> prop_t;
  checker_t::prop_checker_ptr prop(new prop_t(0));
  checker_t checker(a, {prop});
  checker.run();
  auto db = checker.get_all_checks();
  crab::outs() << "safe=" << db.get_total_safe() << " warning=" << db.get_total_warning() << " error=" << db.get_total_error() << "\n";
  if (db.get_total_safe() > 0) { crab::outs() << "FAIL: assert(x >= 1) reported SAFE but the loaded value can be 0\n"; return 1; }
  return rc2;
}
// second program: a reference assertion that can fail
//   entry: region_init(M); havoc(i); p := int_to_ref(i, M);   exit: assert_ref(p != NULL)
static int second() {
  variable_factory_t vfac;
  z_var i(vfac["i"], crab::INT_TYPE, 32);
  z_var p(vfac["p"], crab::REF_TYPE);
  z_var M(vfac["M"], crab::REG_INT_TYPE, 32);
  z_cfg_t cfg("entry", "exit");
  z_basic_block_t &entry = cfg.insert("entry"); z_basic_block_t &exit = cfg.insert("exit");
  entry >> exit;
  entry.region_init(M);
  entry.havoc(i);
  entry.int_to_ref(i, M, p);
  exit.assert_ref(z_ref_cst_t::mk_not_null(p));
  z_cfg_ref_t ref(cfg);
  dom_t top;
  analyzer_t a(ref, top);
  analyzer_t::assumption_map_t assumptions;
  crab::fixpoint_parameters fp; crab::analyzer::fwd_bwd_parameters params; params.enable_backward() = true;
  a.run(cfg.entry(), top, assumptions, nullptr, fp, params);
  typedef crab::checker::intra_checker<analyzer_t> checker_t;
  typedef crab::checker::assert_property_checker<analyzer_t> prop_t;
  checker_t::prop_checker_ptr prop(new prop_t(0));
  checker_t checker(a, {prop});
  checker.run();
  auto db = checker.get_all_checks();
  crab::outs() << "[assert_ref] safe=" << db.get_total_safe() << " warning=" << db.get_total_warning() << " error=" << db.get_total_error() << "\n";
  if (db.get_total_safe() > 0) { crab::outs() << "FAIL: assert_ref(p != NULL) reported SAFE but p = int_to_ref(0) is null\n"; return 1; }
  return 0;
}
