// Behaviour of the UNCHANGED tree that already violates property C08
// (independent of patch.diff).
//
// dis_interval<Number>::UDiv (both the copy in
// include/crab/domains/dis_interval_impl.hpp and the one defined inline in
// include/crab/domains/dis_intervals.hpp, which is the one used by
// dis_interval_domain) computes the *signed* quotient a / b.  For a negative
// operand the unsigned quotient is a different number for every bit width w:
//     (-4) udiv 2 = (2^w - 4) / 2 = 2^(w-1) - 2      (e.g. 2147483646 for w=32)
// but the disjunctive interval returned is [-2, -2], which contains neither
// that number nor its signed reinterpretation for any w.  interval<z_number>
// ::UDiv answers top for the same operands.
//
// Exit status 1 when the violation is observed, 0 otherwise.

#include "crab_lang.hpp"

#include <crab/domains/dis_intervals.hpp>
#include <crab/domains/intervals.hpp>
#include <crab/numbers/bignums.hpp>

using namespace ikos;
using namespace crab::domains;
using namespace crab::cfg_impl;

using z_interval_t = interval<z_number>;
using z_dis_interval_t = dis_interval<z_number>;
using z_dis_interval_domain_t = dis_interval_domain<z_number, varname_t>;
using z_interval_domain_t = interval_domain<z_number, varname_t>;

int main() {
  int violations = 0;

  z_dis_interval_t a(z_interval_t(z_number(-4)));
  z_dis_interval_t b(z_interval_t(z_number(2)));
  z_dis_interval_t r = a.UDiv(b);
  crab::outs() << "dis_interval: [-4,-4] udiv [2,2] = " << r << "\n";
  crab::outs() << "interval    : [-4,-4] udiv [2,2] = "
               << z_interval_t(z_number(-4)).UDiv(z_interval_t(z_number(2)))
               << "\n";

  unsigned widths[] = {8, 16, 32, 64};
  bool some_width_ok = false;
  for (unsigned w : widths) {
    z_number two_w(1);
    for (unsigned i = 0; i < w; i++)
      two_w = two_w * z_number(2);
    z_number q = (two_w - z_number(4)) / z_number(2); // unsigned quotient
    // q < 2^(w-1) so its signed reinterpretation is q itself
    bool ok = z_dis_interval_t(z_interval_t(q)) <= r;
    crab::outs() << "  w=" << w << ": unsigned quotient " << q
                 << (ok ? " is" : " is NOT") << " in the result\n";
    some_width_ok |= ok;
  }
  if (!some_width_ok)
    violations++;

  {
    variable_factory_t vfac;
    z_var x(vfac["x"], crab::INT_TYPE, 32);
    z_var y(vfac["y"], crab::INT_TYPE, 32);
    z_var z(vfac["z"], crab::INT_TYPE, 32);
    z_dis_interval_domain_t inv;
    inv.assign(x, z_number(-4));
    inv.assign(y, z_number(2));
    inv.apply(OP_UDIV, z, x, y);
    crab::outs() << "dis_interval_domain after x:=-4; y:=2; z:=x udiv y : "
                 << inv << "\n";
    z_interval_t zi = inv[z];
    if (!zi[z_number("2147483646")])
      violations++;

    z_interval_domain_t inv2;
    inv2.assign(x, z_number(-4));
    inv2.assign(y, z_number(2));
    inv2.apply(OP_UDIV, z, x, y);
    crab::outs() << "interval_domain     after the same statements         : "
                 << inv2 << "\n";
  }

  if (violations) {
    crab::outs() << "VIOLATION observed: dis_interval UDiv is the signed "
                    "division\n";
    return 1;
  }
  crab::outs() << "no violation observed\n";
  return 0;
}
