// Borderline for C15 (the load is an array_load on a region of arrays, not a
// ref_load): region_domain::region_copy copies the contents of a region with
// ghost_variables::assign(), which uses dom.assign(lhs, rhs) - a NUMERICAL
// assignment - for every non-Boolean ghost variable, also when the ghost
// variable is an array (region(arr(int))).  region_cast uses array_assign for
// that case, region_copy does not: the array contents of the source are not
// copied and the old contents of the destination are not forgotten either.
#include "../tests/common.hpp"
using namespace crab::cfg;
using namespace crab::cfg_impl;
using namespace crab::domain_impl;
using namespace ikos;
using namespace crab::domains;
typedef z_rgn_aa_int_t Dom;

int main() {
  region_domain_params p; // defaults
  crab_domain_params_man::get().update_params(p);
  variable_factory_t vfac;
  z_var R1(vfac["R1"], crab::REG_ARR_INT_TYPE, 32);
  z_var R2(vfac["R2"], crab::REG_ARR_INT_TYPE, 32);
  z_var x(vfac["x"], crab::INT_TYPE, 32);
  //  R2[0] := 5; R1[0] := 7; R2 := region_copy(R1); x := R2[0]   => x == 7
  Dom inv;
  inv.region_init(R1);
  inv.region_init(R2);
  inv.array_store(R2, z_number(4), z_number(0), z_number(5), true);
  inv.array_store(R1, z_number(4), z_number(0), z_number(7), true);
  inv.region_copy(R2, R1);
  inv.array_load(x, R2, z_number(4), z_number(0));
  crab::outs() << inv << " x=" << inv[x] << "\n";
  if (!(ikos::interval<z_number>(z_number(7)) <= inv[x])) {
    crab::outs() << "VIOLATION: x == 7 concretely\n";
    return 1;
  }
  return 0;
}
