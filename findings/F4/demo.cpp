// F4: DCE removes a statement as soon as SOME variable it defines is dead
// (C17): `(x, y) := intrinsic foo(z)` with y dead and x still used by an
// assertion is deleted, leaving x undefined at the assertion.
#include "lang.hpp"
#include <crab/transforms/dce.hpp>
using namespace crab;
using namespace crab::cfg_impl;
int main() {
  variable_factory_t vfac;
  z_var x(vfac["x"], crab::INT_TYPE, 32), y(vfac["y"], crab::INT_TYPE, 32), z(vfac["z"], crab::INT_TYPE, 32);
  z_cfg_t cfg("entry", "exit");
  z_basic_block_t &entry = cfg.insert("entry");
  z_basic_block_t &exit = cfg.insert("exit");
  entry >> exit;
  entry.assign(z, 5);
  entry.intrinsic("foo", {x, y}, {z_var_or_cst_t(z)});
  exit.assertion(x >= 0);
  z_cfg_ref_t ref(cfg);
  crab::transforms::dead_code_elimination<z_cfg_ref_t> dce;
  dce.run(ref);
  crab::outs() << cfg << "\n";
  unsigned stmts = 0;
  for (auto &s : entry) { (void)s; ++stmts; }
  if (stmts != 2) { crab::outs() << "DCE removed a statement that defines the live variable x\n"; return 1; }
  return 0;
}
