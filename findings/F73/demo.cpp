// discovery aid: exhaustive soundness sweep of wrapped_interval operations at widths 3 and 4
#include <crab/domains/wrapped_interval.hpp>
#include <crab/support/os.hpp>
#include <functional>
#include <vector>
using namespace crab::domains; using namespace ikos; using crab::wrapint;
typedef wrapped_interval<z_number> W;
static unsigned M; static unsigned w;
static int sv(unsigned v){ return (v>>(w-1))&1 ? (int)v-(int)M : (int)v; }
static unsigned wr(int v){ return ((unsigned)v) & (M-1); }
int main(){ unsigned long total_bad=0;
 for(w=3; w<=4; w++){ M=1u<<w; std::vector<W> all; std::vector<std::vector<unsigned>> mem;
  for(unsigned s=0;s<M;s++) for(unsigned e=0;e<M;e++){ if (((e - s) & (M-1)) == M-1 && s!=0) continue; W x(wrapint(s,w), wrapint(e,w)); all.push_back(x); std::vector<unsigned> g; for(unsigned k=0;k<M;k++) if(x.at(wrapint(k,w))) g.push_back(k); mem.push_back(g);} 
  struct Op{const char*n; std::function<W(const W&,const W&)> a; std::function<bool(unsigned,unsigned,unsigned&)> c;};
  std::vector<Op> ops={
   {"+",[](const W&a,const W&b){return a+b;},[](unsigned x,unsigned y,unsigned&r){r=wr(x+y);return true;}},
   {"-",[](const W&a,const W&b){return a-b;},[](unsigned x,unsigned y,unsigned&r){r=wr(x-y);return true;}},
   {"*",[](const W&a,const W&b){return a*b;},[](unsigned x,unsigned y,unsigned&r){r=wr(x*y);return true;}},
   {"UDiv",[](const W&a,const W&b){return a.UDiv(b);},[](unsigned x,unsigned y,unsigned&r){if(!y)return false;r=x/y;return true;}},
   {"URem",[](const W&a,const W&b){return a.URem(b);},[](unsigned x,unsigned y,unsigned&r){if(!y)return false;r=x%y;return true;}},
   {"SDiv",[](const W&a,const W&b){return a.SDiv(b);},[](unsigned x,unsigned y,unsigned&r){if(!y)return false;r=wr(sv(x)/sv(y));return true;}},
   {"SRem",[](const W&a,const W&b){return a.SRem(b);},[](unsigned x,unsigned y,unsigned&r){if(!y)return false;r=wr(sv(x)%sv(y));return true;}},
   {"And",[](const W&a,const W&b){return a.And(b);},[](unsigned x,unsigned y,unsigned&r){r=x&y;return true;}},
   {"Or",[](const W&a,const W&b){return a.Or(b);},[](unsigned x,unsigned y,unsigned&r){r=x|y;return true;}},
   {"Xor",[](const W&a,const W&b){return a.Xor(b);},[](unsigned x,unsigned y,unsigned&r){r=x^y;return true;}},
   {"Shl",[](const W&a,const W&b){return a.Shl(b);},[](unsigned x,unsigned y,unsigned&r){if(y>=w)return false;r=wr(x<<y);return true;}},
   {"LShr",[](const W&a,const W&b){return a.LShr(b);},[](unsigned x,unsigned y,unsigned&r){if(y>=w)return false;r=x>>y;return true;}},
   {"AShr",[](const W&a,const W&b){return a.AShr(b);},[](unsigned x,unsigned y,unsigned&r){if(y>=w)return false;r=wr(sv(x)>>y);return true;}},
   {"meet",[](const W&a,const W&b){return a&b;},nullptr},
  };
  for(auto&op:ops){ unsigned long bad=0,n=0; if(getenv("ONLY") && std::string(getenv("ONLY"))!=op.n) continue; crab::outs()<<"[op "<<op.n<<"]\n";
   for(size_t i=0;i<all.size();i++) for(size_t j=0;j<all.size();j++){ if(getenv("TRACE")) crab::outs()<<all[i]<<" "<<op.n<<" "<<all[j]<<"\n"; W r=op.a(all[i],all[j]); n++; bool ok=true; unsigned wx=0,wy=0,wz=0;
     if(op.c){ for(unsigned x:mem[i]){ for(unsigned y:mem[j]){ unsigned c; if(!op.c(x,y,c))continue; if(!r.is_top() && (r.is_bottom()||!r.at(wrapint(c,w)))){ok=false;wx=x;wy=y;wz=c;break;} } if(!ok)break; } }
     else { for(unsigned x:mem[i]) for(unsigned y:mem[j]) if(x==y && !r.is_top() && (r.is_bottom()||!r.at(wrapint(x,w)))){ok=false;wx=wy=wz=x;} }
     if(!ok){ if(bad++<3) crab::outs()<<"  w="<<w<<" "<<all[i]<<" "<<op.n<<" "<<all[j]<<" = "<<r<<" misses "<<wz<<" (from "<<wx<<","<<wy<<")\n"; } }
   crab::outs()<<"w="<<w<<" "<<op.n<<": "<<n<<" pairs, "<<bad<<" unsound\n"; total_bad+=bad; }
  // unary: extensions, truncation, constant shifts
  unsigned long bad=0,n=0;
  for(size_t i=0;i<all.size();i++){ if(all[i].is_top()) continue; for(unsigned k=1;k<=2;k++){ W z=all[i].ZExt(k), s=all[i].SExt(k); n+=2; unsigned M2=1u<<(w+k);
      for(unsigned x:mem[i]){ unsigned zx=x, sx=(unsigned)(sv(x)) & (M2-1); if(!z.is_top()&&!z.at(wrapint(zx,w+k))){ if(bad++<3) crab::outs()<<"  ZExt "<<all[i]<<" by "<<k<<" = "<<z<<" misses "<<zx<<"\n"; break;} if(!s.is_top()&&!s.at(wrapint(sx,w+k))){ if(bad++<3) crab::outs()<<"  SExt "<<all[i]<<" by "<<k<<" = "<<s<<" misses "<<sx<<"\n"; break;} } }
    for(unsigned k=1;k<w;k++){ W t=all[i].Trunc(k); n++; for(unsigned x:mem[i]){ unsigned tx=x&((1u<<k)-1); if(!t.is_top()&&!t.at(wrapint(tx,k))){ if(bad++<3) crab::outs()<<"  Trunc "<<all[i]<<" to "<<k<<" = "<<t<<" misses "<<tx<<"\n"; break;} } }
  }
  crab::outs()<<"w="<<w<<" unary: "<<n<<" cases, "<<bad<<" unsound\n"; total_bad+=bad; }
 return total_bad?1:0; }
