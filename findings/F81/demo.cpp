// UNCHANGED TREE (no patch needed): an assumption attached to a loop head is
// applied only to the states that enter the loop from outside, not to the
// states that come back along the back edge.
//
// wto_iterator::visit(wto_cycle_t&) calls strengthen(head, pre) once, before
// the ascending sequence; new_pre (the join of the posts of all predecessors,
// back edges included) is never strengthened, and extrapolate() returns
// pre | new_pre.  For a block that is not a loop head, visit(wto_vertex_t&)
// strengthens the join of all predecessors on every visit.
//
// If "under any assumption map" means pre(n) = (join of incoming states) /\ A(n)
// at every block n, the returned solution is not the least one: it is not even
// inside A(h) at the head h.
//
//   entry -> h ; h -> body -> h ; h -> exit      body: x := x+1 (mod 8)
//   start: entry, x = 0;  assumption at h: x in {0,1,2}
//
//   least solution:  pre(h) = {0,1,2}, pre(body) = {0,1,2}, pre(exit) = {0,1,2}
//   returned:        pre(h) = {0,...,7}
//
// exit status 1 when the violation is observed, 0 otherwise.
#include "unchanged_tree_common.hpp"

int main() {
  z_cfg_t prog("entry", "exit");
  auto &entry = prog.insert("entry");
  auto &h = prog.insert("h");
  auto &body = prog.insert("body");
  auto &exit = prog.insert("exit");
  entry >> h;
  h >> body;
  body >> h;
  h >> exit;
  z_cfg_ref_t cfg(prog);

  transformers_t tr;
  tr["entry"] = add_mod8(0);
  tr["h"] = add_mod8(0);
  tr["body"] = add_mod8(1);
  tr["exit"] = add_mod8(0);

  assumptions_t assume_h;
  assume_h.insert({"h", pset(0x07u)});
  const pset init(1u << 0);

  crab::fixpoint_parameters params;
  solution expected = least_solution(cfg, tr, "entry", init, assume_h);
  exact_iterator it(cfg, tr, params);
  it.run("entry", init, assume_h);
  unsigned errors = compare("assumption at loop head", it, cfg, expected);
  if (errors) {
    std::printf("VIOLATION observed on the unchanged tree (%u invariants)\n",
                errors);
    return 1;
  }
  std::printf("no violation observed\n");
  return 0;
}
