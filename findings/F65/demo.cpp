// discovery aid: wrapint arithmetic against a reference (all operands at widths 1..6, sampled operands at 32 and 64)
#include <crab/numbers/wrapint.hpp>
#include <crab/support/os.hpp>
#include <vector>
using crab::wrapint; using ikos::z_number;
typedef unsigned __int128 u128; typedef __int128 s128;
static unsigned long long mask(unsigned w){ return w==64? ~0ULL : ((1ULL<<w)-1); }
static s128 sval(unsigned long long v, unsigned w){ if (w==64) return (s128)(long long)v; return (v>>(w-1))&1 ? (s128)v - ((s128)1<<w) : (s128)v; }
static unsigned long long wrap(s128 v, unsigned w){ return (unsigned long long)((u128)v & (u128)mask(w)); }
int main(){ unsigned long bad=0,n=0;
  auto rep=[&](const char*op,unsigned w,unsigned long long a,unsigned long long b,unsigned long long got,unsigned long long want){ if(got!=want){ if(bad++<12) crab::outs()<<op<<" w="<<w<<" a="<<(uint64_t)a<<" b="<<(uint64_t)b<<": got "<<(uint64_t)got<<" want "<<(uint64_t)want<<"\n"; } n++; };
  auto chk=[&](unsigned w, unsigned long long a, unsigned long long b){ wrapint x(a,w), y(b,w); s128 sa=sval(a,w), sb=sval(b,w);
    rep("+",w,a,b,(x+y).get_uint64_t(),wrap((s128)a+(s128)b,w)); rep("-",w,a,b,(x-y).get_uint64_t(),wrap((s128)a-(s128)b,w));
    rep("*",w,a,b,(x*y).get_uint64_t(),wrap((s128)((u128)a*(u128)b),w));
    rep("&",w,a,b,(x&y).get_uint64_t(),a&b); rep("|",w,a,b,(x|y).get_uint64_t(),a|b); rep("^",w,a,b,(x^y).get_uint64_t(),a^b);
    if(b){ rep("udiv",w,a,b,x.udiv(y).get_uint64_t(),a/b); rep("urem",w,a,b,x.urem(y).get_uint64_t(),a%b);
           rep("sdiv",w,a,b,x.sdiv(y).get_uint64_t(),wrap(sa/sb,w)); rep("srem",w,a,b,x.srem(y).get_uint64_t(),wrap(sa%sb,w)); }
    rep("<u",w,a,b,(x<y),a<b); rep("<=u",w,a,b,(x<=y),a<=b);
    // bignum round trips
    z_number ub = x.get_unsigned_bignum(), sb2 = x.get_signed_bignum();
    rep("from-unsigned-bignum",w,a,0,wrapint(ub,w).get_uint64_t(),a); rep("from-signed-bignum",w,a,0,wrapint(sb2,w).get_uint64_t(),a);
  };
  for(unsigned w=1;w<=6;w++) for(unsigned long long a=0;a<(1ULL<<w);a++) for(unsigned long long b=0;b<(1ULL<<w);b++) chk(w,a,b);
  unsigned long long pts[]={0,1,2,3,0x7fffffffULL,0x80000000ULL,0xffffffffULL,0x7fffffffffffffffULL,0x8000000000000000ULL,0xffffffffffffffffULL,0x8000000000000001ULL,0xfffffffffffffffeULL,12345678901234567ULL};
  for(unsigned w: {32u,63u,64u}) for(auto a:pts) for(auto b:pts){ if((a&mask(w))!=a||(b&mask(w))!=b) continue; chk(w,a,b);} 
  crab::outs()<<n<<" cases, "<<bad<<" wrong\n"; return bad?1:0; }
