#include "crab_lang.hpp"
#include "crab_dom.hpp"
#include <crab/domains/uf_domain.hpp>
using namespace crab::cfg_impl; using namespace crab::domain_impl; using namespace ikos;
int main() { typedef crab::domains::uf_domain<z_number, varname_t> D;
  variable_factory_t vfac; z_var x(vfac["x"], crab::INT_TYPE, 32), y(vfac["y"], crab::INT_TYPE, 32), z(vfac["z"], crab::INT_TYPE, 32);
  D d; d.assign(x, z_lin_exp_t(z) + z_number(1));    // x = z + 1
  d.expand(x, y);
  auto csts = d.to_linear_constraint_system();
  crab::outs() << "x := z+1; expand(x, y): " << d << "  exports " << csts << "\n";
  for (auto c : csts) { if (c.is_equality() && c.expression().size() == 2) { bool hx=false,hy=false; for (auto v : c.variables()) { hx |= (v == x); hy |= (v == y);} if (hx && hy) { crab::outs() << "UNSOUND: exports x == y for an unrelated copy\n"; return 1; } } }
  return 0; }
