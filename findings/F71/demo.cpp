// F71 (C03, C14): g++ -w -std=c++11 -O1 -I/repo/include -I/repo/_build/include -I/repo/tests demo.cpp /repo/_build/lib/libCrab.a -lgmp
// term_domain::expand(x, y) bound y to the TERM of x, i.e. y == x, although expand must "make a new copy of var without
// relating var with new_var".  x in [0,5]; expand(x, y); assume(y <= 2) then gave x <= 2.  Under array smashing (loads go
// through expand) a loaded value became equal to the summary of the whole array.
// Found by the array discovery aid findings/aids/arrfuzz.cpp (domain aaterm, seed 4052).
#include "crab_lang.hpp"
#include "crab_dom.hpp"
using namespace crab::cfg_impl; using namespace crab::domain_impl; using namespace ikos;
int main() {
  variable_factory_t vfac; z_var x(vfac["x"], crab::INT_TYPE, 32), y(vfac["y"], crab::INT_TYPE, 32);
  z_term_domain_t d; d += (x >= z_number(0)); d += (x <= z_number(5));
  d.expand(x, y);
  d += (y <= z_number(2));
  interval<z_number> ix = d[x]; z_number five(5);
  crab::outs() << "x in [0,5]; expand(x, y); assume(y <= 2): " << d << "   x in " << ix << "\n";
  if (!ix[five]) { crab::outs() << "UNSOUND: x = 5 with the copy y = 1 is a state\n"; return 1; }
  return 0;
}
