// F51 (C03): build with
//   g++ -w -std=c++11 -O1 -I/repo/include -I/repo/_build/include -I/repo/tests demo.cpp /repo/_build/lib/libCrab.a -lgmp
// fixed_tvpi_domain keeps, for a tracked coefficient N, a ghost variable G(v) that stands for v / N.
//  P1  x := 4*y with N = 2 recorded G(x) := y  (the rewrite for "x := N*y") although x/2 = 2*y.
//      y := 1; x := 4*y; assume(2*w <= x) must allow w = 2.
//  P2  x := y / 4 with N = 2 recorded x := G(y) = y/2.
//      y := 8; x := y/4 = 2.
//  P4, P5 (F59) rewrites that mention x itself read the value the base domain has already overwritten.
//  P3  x := y / 2 assigned x := G(y) and returned: G(x) kept the quotient of the PREVIOUS value of x.
//      x := 8; x := y/2 (y in [2,3]); assume(x <= 2*w) must allow w = 1.
#include "crab_lang.hpp"
#include "crab_dom.hpp"
using namespace crab::cfg_impl;
using namespace crab::domain_impl;
using namespace ikos;
using dom_t = z_fixed_tvpi_domain_t;
using interval_t = ikos::interval<z_number>;
static int bad = 0;
static void must_contain(const char *name, dom_t &d, z_var v, long val) {
  interval_t i = d[v];
  crab::outs() << name << ": " << v << " in " << i << " (concrete " << val << ")\n";
  if (!(interval_t(z_number(val)) <= i)) { crab::outs() << "  UNSOUND\n"; bad++; }
}
int main() {
  crab::domains::crab_domain_params_man::get().coefficients().push_back(2);
  variable_factory_t vfac;
  z_var x(vfac["x"], crab::INT_TYPE, 32), y(vfac["y"], crab::INT_TYPE, 32), w(vfac["w"], crab::INT_TYPE, 32), v(vfac["v"], crab::INT_TYPE, 32), s(vfac["s"], crab::INT_TYPE, 32);
  { dom_t d;
    d += (y >= z_number(1)); d += (y <= z_number(5));      // y not a singleton
    d.apply(crab::domains::OP_MULTIPLICATION, x, y, z_number(4));
    d += (z_number(2) * w <= x);
    d += (w >= z_number(2) * y);                             // w = 2y is possible: 2w = 4y = x
    d += (y >= z_number(1)); 
    crab::outs() << "P1 " << d << "\n";
    if (d.is_bottom()) { crab::outs() << "  UNSOUND: y=1, x=4, w=2 is a model\n"; bad++; } }
  { dom_t d;
    d += (y >= z_number(8)); d += (y <= z_number(16));
    d.apply(crab::domains::OP_SDIV, x, y, z_number(4));
    d += (y <= z_number(8));
    must_contain("P2", d, x, 2); }
  { dom_t d;
    d.assign(x, z_number(8));                                 // G(x) = 4
    d += (y >= z_number(2)); d += (y <= z_number(3));
    d.apply(crab::domains::OP_SDIV, x, y, z_number(2));       // x = 1, G(x) must not stay 4
    d += (x <= z_number(2) * w);                              // w >= 1
    must_contain("P3", d, w, 1); }
  { // P4 (F59): x := 2*x - 2 rewrote G(x) := x - 1 AFTER the base domain had overwritten x (new value read)
    dom_t d;
    d += (x >= z_number(4)); d += (x <= z_number(6));
    z_lin_exp_t e = z_number(2) * x - z_number(2);
    d.assign(x, e);                                            // x in [6,10]
    d += (x <= z_number(2) * w);                               // w >= x/2 >= 3
    must_contain("P4", d, w, 3); }
  { // P5 (F59): x := x * 4 computed G(x) := x * 2 from the NEW x
    dom_t d;
    d += (x >= z_number(1)); d += (x <= z_number(2));
    d.apply(crab::domains::OP_MULTIPLICATION, x, x, z_number(4)); // x in [4,8]
    d += (x <= z_number(2) * w);                               // w >= 2
    must_contain("P5", d, w, 2); }
  return bad ? 1 : 0;
}
