// F70 (C14): g++ -w -std=c++11 -O1 -I/repo/include -I/repo/_build/include -I/repo/tests demo.cpp /repo/_build/lib/libCrab.a -lgmp
// array_smashing::array_assign(B, A) ASSIGNED the summary variable of A to the summary variable of B.  Both stand for all the
// cells of their array, so a relational base domain then knows B.smashed == A.smashed, and a load y := A[k] (y := an expanded copy
// of A.smashed) inherits y == B.smashed:   A := -1 everywhere; A[24..28] := -3; B := A; y := A[20]
// gives y == B.smashed, which excludes the reachable state y = -1, B[24] = -3.
// Found by the discovery aid findings/aids/arrfuzz.cpp (domain assdbm, seed 2867).
#include "crab_lang.hpp"
#include "crab_dom.hpp"
using namespace crab::cfg_impl; using namespace crab::domain_impl; using namespace ikos;
int main() {
  typedef z_as_sdbm_t D; variable_factory_t vfac; crab::CrabEnableWarningMsg(false);
  z_var A(vfac["A"], crab::ARR_INT_TYPE, 32), B(vfac["B"], crab::ARR_INT_TYPE, 32), y(vfac["y"], crab::INT_TYPE, 32), t(vfac["t"], crab::INT_TYPE, 32);
  D d;
  d.array_init(A, z_number(4), z_number(0), z_number(28), z_number(-1));
  d.array_store_range(A, z_number(4), z_number(24), z_number(28), z_number(-3));
  d.array_assign(B, A);
  d.array_load(y, A, z_number(4), z_number(20));
  crab::outs() << "A := -1; A[24..28] := -3; B := A; y := A[20]: " << d << "\n";
  d += (y == z_number(-1));                 // A[20] is -1
  d.array_load(t, B, z_number(4), z_number(24));
  d += (t == z_number(-3));                 // B[24] is -3
  crab::outs() << "with y = -1 and B[24] = -3: " << d << "\n";
  if (d.is_bottom()) { crab::outs() << "UNSOUND: that state is reachable\n"; return 1; }
  return 0;
}
