// flat_boolean_numerical_domain::operator+= sends every constraint over Boolean variables that
// is not of the exact shape "b == 0/1" (e.g. b >= 1, b != 0, b <= 0) to the *numerical*
// sub-domain.  The Boolean transfer functions (assign_bool_var, assign_bool_cst,
// apply_binary_bool, select_bool, ...) only update the Boolean sub-domain and the side tables,
// the numerical sub-domain implements them as no-ops, so the numerical fact about b survives
// the redefinition of b.
#include "crab_dom.hpp"
using namespace crab::cfg_impl;
using namespace crab::domain_impl;
using namespace crab::domains;
using ikos::z_number;
typedef z_bool_interval_domain_t dom_t;   // flat_boolean_numerical_domain<interval_domain>

int main() {
  variable_factory_t vfac;
  z_var b(vfac["b"], crab::BOOL_TYPE, 1);
  z_var c(vfac["c"], crab::BOOL_TYPE, 1);
  int bad = 0;
  // assume(b >= 1)   [b is true];   assume(!c);   b := c     concrete: b = false, c = false
  dom_t d;
  d += z_lin_cst_t(z_lin_exp_t(b) >= z_number(1));
  d.assume_bool(c, true /*negated*/);
  d.assign_bool_var(b, c, false);
  auto i = d.at(b);
  auto csts = d.to_linear_constraint_system();
  crab::outs() << d << "\n  is_bottom=" << d.is_bottom() << "  at(b)=" << i << "  constraints=" << csts << "\n";
  if (!d.is_bottom() && !i[z_number(0)]) {
    crab::outs() << "VIOLATION: at(b) excludes 0 but b=false,c=false is the reachable state\n";
    bad = 1;
  }
  for (auto const &cst : csts) {   // evaluate every exported constraint on b=0,c=0
    z_number v = cst.expression().constant();   // all variables are 0
    bool holds = cst.is_equality() ? v == 0 : cst.is_disequation() ? v != 0 : cst.is_inequality() ? v <= 0 : v < 0;
    if (!holds) {
      crab::outs() << "VIOLATION: exported constraint " << cst << " does not hold for b=0,c=0\n";
      bad = 1;
    }
  }
  return bad;
}
