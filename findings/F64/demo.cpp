// UNCHANGED TREE (independent of patch.diff).
// wrapped_interval_domain::set(v, interval_t) converts the two bounds
// independently modulo 2^w.  For an interval wider than 2^w the result is a
// small interval instead of top:  set(x:int8, [0,300]) gives [0,44], although
// the values 45..255 (e.g. 100) are images of members of [0,300].
// Exit status 1 when the violation is observed.
#include "crab_lang.hpp"
#include <crab/domains/wrapped_interval_domain.hpp>
using namespace crab;
using namespace crab::cfg_impl;
using D = crab::domains::wrapped_interval_domain<ikos::z_number, varname_t>;
int main() {
  variable_factory_t vfac;
  z_var x(vfac["x"], crab::INT_TYPE, 8);
  D d;
  d.set(x, ikos::interval<ikos::z_number>(ikos::z_number(0), ikos::z_number(300)));
  crab::outs() << "set(x:int8, [0,300]) = " << d << "\n";
  if (!d.get_wrapped_interval(x).at(wrapint(100, 8))) {
    crab::outs() << "VIOLATION: 100 is in [0,300] but not in the result\n";
    return 1;
  }
  return 0;
}
