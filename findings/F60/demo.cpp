// F60 (C03) KNOWN FINDING, not repaired: g++ -w -std=c++11 -O1 -I/repo/include -I/repo/_build/include -I/repo/tests demo.cpp /repo/_build/lib/libCrab.a -lgmp
// fixed_tvpi_domain<Dom over z_number> with a tracked coefficient: the ghost variable G(v) stands for the RATIONAL v / COEF but
// is an integer variable of the integer base domain, which tightens constraints over it as if it were integral:
//   a, b in [0,2];  assume(2 - 3*a + b == 0)   is rewritten into   1 - 3*G(a) + G(b) == 0  with G(a), G(b) in [0,1]:
//   no INTEGER solution, so the value becomes bottom - but a = 1, b = 1 (G = 1/2, 1/2) is a model.
// Found by the random differential aid findings/aids/domfuzz.cpp (domain tvpi, seed 22).
#include "crab_lang.hpp"
#include "crab_dom.hpp"
using namespace crab::cfg_impl; using namespace crab::domain_impl; using namespace ikos;
int main() {
  crab::domains::crab_domain_params_man::get().coefficients().push_back(2);
  variable_factory_t vfac; z_var a(vfac["a"], crab::INT_TYPE, 32), b(vfac["b"], crab::INT_TYPE, 32);
  z_fixed_tvpi_domain_t d;
  d += (a >= z_number(0)); d += (a <= z_number(2)); d += (b >= z_number(0)); d += (b <= z_number(2));
  z_lin_exp_t e = z_number(2) - z_number(3) * a + b;
  d += (e == z_number(0));
  crab::outs() << "a, b in [0,2]; assume(2 - 3a + b == 0): " << d << "\n";
  if (d.is_bottom()) { crab::outs() << "UNSOUND: a = 1, b = 1 is a model\n"; return 1; }
  return 0;
}
