// Behaviour of the UNCHANGED tree that already violates C18 (liveness part).
//
//   entry:  x := 5; y := 1;               goto b or c
//   b:      assert(x >= 1);
//           unreachable;
//   c:      assert(y >= 1);
//
// liveness_analysis_operations::init_fixpoint() treats every block that
// contains an `unreachable` statement ANYWHERE as having no live variable at
// its entry, although the statements located before the `unreachable` are
// executed.  Here x is used by the assertion of b, so changing x at the end
// of "entry" (e.g. to 0) changes the outcome of that assertion; nevertheless
// liveness says that only y is live at the end of "entry" and
// live_and_dead_analysis::dead_exit("entry") contains x (the forward analyzer
// forgets such variables at the end of the block).
//
// Exit status 1 when the violation is observed, 0 otherwise.

#include "crab_lang.hpp"
#include <crab/analysis/dataflow/liveness.hpp>

#include <iostream>

using namespace crab::cfg;
using namespace crab::cfg_impl;

int main() {
  variable_factory_t vfac;
  z_var x(vfac["x"], crab::INT_TYPE, 32);

  z_var y(vfac["y"], crab::INT_TYPE, 32);
  z_cfg_t cfg("entry", "c");
  z_basic_block_t &entry = cfg.insert("entry");
  z_basic_block_t &b = cfg.insert("b");
  z_basic_block_t &c = cfg.insert("c");
  entry >> b;
  entry >> c;
  entry.assign(x, 5);
  entry.assign(y, 1);
  c.assertion(y >= 1);
  b.assertion(x >= 1);
  b.unreachable();

  crab::analyzer::live_and_dead_analysis<z_cfg_ref_t> live(cfg);
  live.exec();

  auto live_out = live.get("entry");
  auto dead_out = live.dead_exit("entry");
  crab::outs() << "live at the end of entry = " << live_out << "\n";
  crab::outs() << "dead at the end of entry = " << dead_out << "\n";

  bool x_live = live_out.contain(x);
  bool x_dead = dead_out.contain(x);
  if (!x_live || x_dead) {
    std::cout << "VIOLATION: x is reported dead at the end of entry but "
                 "assert(x >= 1) in b reads it\n";
    return 1;
  }
  std::cout << "OK\n";
  return 0;
}
