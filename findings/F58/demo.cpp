// F58 (C05): g++ -w -std=c++11 -O1 -I/repo/include -I/repo/_build/include -I/repo/tests demo.cpp /repo/_build/lib/libCrab.a -lgmp
// lookahead_widening_domain keeps (first, second); queries answer from `first`.  When `other.second <= second` the
// widening promoted OTHER's second into first, which need not contain this->first:
//   X = (a=0) || (a=1)  ->  first = [0,1], second = [0,+oo];   X || (a=5)  gave  first = second = [5,5]   (a = 0, 1 lost)
// Found by the random differential aid findings/aids/domfuzz.cpp (domain lw, seeds 68 and 148).
#include "crab_lang.hpp"
#include "crab_dom.hpp"
using namespace crab::cfg_impl; using namespace crab::domain_impl; using namespace ikos;
int main() {
  typedef z_soct_domain_lw_t D; typedef interval<z_number> I;
  variable_factory_t vfac; z_var a(vfac["a"], crab::INT_TYPE, 32);
  D c, d, e; c.assign(a, z_number(0)); d.assign(a, z_number(1)); e.assign(a, z_number(5));
  D x = c || d;
  D w = x || e;
  I ia = w[a];
  crab::outs() << "x = " << x << "\nx || (a=5) = " << w << "   a in " << ia << "\n";
  z_number zero(0), five(5);
  if (!ia[zero] || !ia[five]) { crab::outs() << "UNSOUND: the widening does not describe both arguments\n"; return 1; }
  return 0;
}
