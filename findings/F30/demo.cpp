// F30 (C04/C16): split_dbm_domain::operator<= answers no as soon as the left operand has FEWER entries in its vertex table than the right
// one, although entries of unconstrained variables (left behind by widening) are skipped by the comparison loop itself:
// two values that print the same are not included in each other.
// build: g++ -std=c++11 -O1 -I/repo/include -I/repo/_build/include -I/repo/tests demo.cpp /repo/_build/lib/libCrab.a -lgmp
#include "crab_lang.hpp"
#include "crab_dom.hpp"
using namespace crab; using namespace crab::cfg_impl; using namespace crab::domain_impl; using namespace ikos;
template <typename D> int run(const char *name) {
  variable_factory_t vfac;
  z_var x(vfac["x"], crab::INT_TYPE, 32), w(vfac["w"], crab::INT_TYPE, 32), k(vfac["k"], crab::INT_TYPE, 32);
  D a, b, W2;
  a += (z_lin_exp_t(x) <= z_number(1)); a += (z_lin_exp_t(w) <= z_number(5)); a += (z_lin_exp_t(k) <= z_number(1));
  b += (z_lin_exp_t(x) <= z_number(2)); b += (z_lin_exp_t(w) <= z_number(6)); b += (z_lin_exp_t(k) <= z_number(1));
  D W = a || b;                    // widening: x and w lose their bounds, k <= 1 stays
  W2 += (z_lin_exp_t(k) <= z_number(1));
  bool l1 = W <= W2, l2 = W2 <= W;
  crab::outs() << name << ": W = " << W << "   W2 = " << W2 << "   W <= W2: " << l1 << "   W2 <= W: " << l2 << "\n";
  int bad = 0;
  if (!l1 || !l2) { crab::outs() << "   WRONG: the two values are equal but inclusion does not hold in both directions\n"; bad++; }
  return bad;
}
int main() {
  int bad = run<z_sdbm_domain_t>("split_dbm");
  bad += run<z_soct_domain_t>("split_oct");
  bad += run<z_dbm_domain_t>("sparse_dbm");
  return bad ? 1 : 0;
}
