// C15 violation: region_domain::intrinsic("is_unfreed_or_null").  When the
// domain cannot prove that the reference is null or unfreed it leaves the
// output Boolean untouched (the other region intrinsics, does_not_have_tag and
// is_dereferenceable, forget their output in that case).  The Boolean keeps
// the value it had BEFORE the statement, e.g. a definite `false`, although the
// statement redefines it.  assume(b) then makes the abstract state bottom
// while the concrete execution goes on, so every later load is "unreachable".
//
// needs region.deallocation=true (non-default) and a base domain that tracks
// Booleans.
#include "../tests/common.hpp"
using namespace crab::cfg;
using namespace crab::cfg_impl;
using namespace crab::domain_impl;
using namespace ikos;
using namespace crab::domains;
typedef z_rgn_bool_int_t Dom;

int main() {
  region_domain_params p(true, true /*deallocation*/, true, false, true);
  crab_domain_params_man::get().update_params(p);
  variable_factory_t vfac;
  crab::tag_manager as_man;
  z_var_or_cst_t size4(z_number(4), crab::variable_type(crab::INT_TYPE, 32));
  z_var_or_cst_t seven(z_number(7), crab::variable_type(crab::INT_TYPE, 32));
  z_var R(vfac["R"], crab::REG_INT_TYPE, 32);
  z_var p1(vfac["p"], crab::REF_TYPE, 32);
  z_var q(vfac["q"], crab::REF_TYPE, 32);
  z_var b(vfac["b"], crab::BOOL_TYPE, 1);
  z_var x(vfac["x"], crab::INT_TYPE, 32);

  //   p := make_ref(R); q := make_ref(R); *q := 7;
  //   b := false;
  //   free(R, p);                       // only p's object is freed
  //   b := is_unfreed_or_null(R, q);    // concretely b == true
  //   assume(b);
  //   x := *q;                          // concretely x == 7
  Dom inv;
  inv.region_init(R);
  inv.ref_make(p1, R, size4, as_man.mk_tag());
  inv.ref_make(q, R, size4, as_man.mk_tag());
  inv.ref_store(q, R, seven);
  inv.assign_bool_cst(b, z_lin_cst_t::get_false());
  inv.ref_free(R, p1);
  inv.intrinsic("is_unfreed_or_null", {z_var_or_cst_t(R), z_var_or_cst_t(q)},
                {b});
  crab::outs() << "after b := is_unfreed_or_null(R,q): " << inv << "\n";
  inv.assume_bool(b, false /*not negated*/);
  inv.ref_load(q, R, x);
  crab::outs() << "after assume(b); x := *q: " << inv << " x=" << inv[x] << "\n";
  if (inv.is_bottom() ||
      !(ikos::interval<z_number>(z_number(7)) <= inv[x])) {
    crab::outs() << "VIOLATION: the concrete execution reaches this point with "
                    "b == true and x == 7\n";
    return 1;
  }
  return 0;
}
