#include <crab/numbers/wrapint.hpp>
#include <crab/support/os.hpp>
using crab::wrapint;
int main(){ wrapint x(5,64); wrapint y = x.keep_lower(63); crab::outs() << "keep_lower_64(5, 63) = " << y << " width " << (unsigned)y.get_bitwidth() << "\n"; 
 wrapint z(0xFFFFFFFFFFFFFFFFULL,64); crab::outs() << "keep_lower_64(2^64-1, 63) = " << z.keep_lower(63) << "\n"; return y.get_uint64_t()==5?0:1; }
