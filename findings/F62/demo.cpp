// discovery aid / replay for F62: wrapint shifts against a reference (all operands at widths 1..7, edge cases at 32 and 64)
#include <crab/numbers/wrapint.hpp>
#include <crab/support/os.hpp>
#include <vector>
using crab::wrapint;
typedef unsigned __int128 u128; typedef __int128 s128;
static unsigned long long mask(unsigned w){ return w==64? ~0ULL : ((1ULL<<w)-1); }
static long long sval(unsigned long long v, unsigned w){ if (w==64) return (long long)v; return (v>>(w-1))&1 ? (long long)v - (long long)(1ULL<<w) : (long long)v; }
int main(){ unsigned long bad=0,n=0;
  auto chk=[&](unsigned w, unsigned long long a, unsigned long long k){ wrapint x(a,w), s(k,w);
    unsigned long long rs = (k>=w)?0: (unsigned long long)(((u128)a<<k) & mask(w));
    unsigned long long rl = (k>=w)?0: (a>>k);
    s128 sa = sval(a,w); s128 q = (k>=w)? (sa<0?-1:0) : (sa >> k); unsigned long long ra = (unsigned long long)q & mask(w);
    unsigned long long gs=(x<<s).get_uint64_t(), gl=x.lshr(s).get_uint64_t(), ga=x.ashr(s).get_uint64_t(); n++;
    if(gs!=rs||gl!=rl||ga!=ra){ if(bad++<8) crab::outs()<<"w="<<w<<" a="<<(uint64_t)a<<" k="<<(uint64_t)k<<": shl "<<(uint64_t)gs<<"/"<<(uint64_t)rs<<" lshr "<<(uint64_t)gl<<"/"<<(uint64_t)rl<<" ashr "<<(uint64_t)ga<<"/"<<(uint64_t)ra<<"\n"; } };
  for(unsigned w=1;w<=7;w++) for(unsigned long long a=0;a<(1ULL<<w);a++) for(unsigned long long k=0;k<(1ULL<<w);k++) chk(w,a,k);
  unsigned long long pts[]={0,1,2,0x7fffffffULL,0x80000000ULL,0xffffffffULL,0x7fffffffffffffffULL,0x8000000000000000ULL,0xffffffffffffffffULL,0x8000000000000001ULL};
  for(unsigned w: {32u,64u}) for(auto a:pts) for(unsigned long long k: {0ULL,1ULL,31ULL,32ULL,63ULL,64ULL,65ULL,200ULL}) { if((a&mask(w))!=a) continue; if((k&mask(w))!=k) continue; chk(w,a,k);} 
  crab::outs()<<n<<" cases, "<<bad<<" wrong\n"; return bad?1:0; }
