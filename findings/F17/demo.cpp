// F17 (C11, C02): build with  g++ -std=c++11 -O1 -I/repo/include -I/repo/_build/include -I/repo/tests demo.cpp /repo/_build/lib/libCrab.a -lgmp
// before the fix: intervals and split-dbm report assert(x >= 1) SAFE (exit 1); after it: warning for all four domains (exit 0).
// candidate (C11/C02): backward_array_load is a no-op in ARRAY_OPERATIONS_NOT_IMPLEMENTED (numerical domains) and in array_smashing.
//   entry: x := 5; x := a[i]; exit: assert(x >= 1)      -- a[i] is unconstrained, so the assertion can fail
#include "crab_lang.hpp"
#include "crab_dom.hpp"
#include <crab/analysis/bwd_analyzer.hpp>
#include <crab/checkers/assertion.hpp>
#include <crab/checkers/checker.hpp>
using namespace crab; using namespace crab::cfg_impl; using namespace crab::domain_impl; using namespace ikos;
template <typename dom_t> int run(const char *name) {
  typedef crab::analyzer::intra_forward_backward_analyzer<z_cfg_ref_t, dom_t> analyzer_t;
  variable_factory_t vfac;
  z_var x(vfac["x"], crab::INT_TYPE, 32), i(vfac["i"], crab::INT_TYPE, 32);
  z_var a(vfac["a"], crab::ARR_INT_TYPE);
  z_cfg_t cfg("entry", "exit");
  z_basic_block_t &entry = cfg.insert("entry"); z_basic_block_t &exit = cfg.insert("exit");
  entry >> exit;
  entry.assign(x, 5);
  entry.assign(i, 0);
  entry.array_load(x, a, i, 4);
  exit.assertion(x >= 1);
  z_cfg_ref_t ref(cfg);
  dom_t top;
  analyzer_t an(ref, top);
  typename analyzer_t::assumption_map_t assumptions;
  crab::fixpoint_parameters fp; crab::analyzer::fwd_bwd_parameters params; params.enable_backward() = true;
  an.run(cfg.entry(), top, assumptions, nullptr, fp, params);
  typedef crab::checker::intra_checker<analyzer_t> checker_t;
  typedef crab::checker::assert_property_checker<analyzer_t> prop_t;
  typename checker_t::prop_checker_ptr prop(new prop_t(0));
  checker_t checker(an, {prop});
  checker.run();
  auto db = checker.get_all_checks();
  crab::outs() << name << ": safe=" << db.get_total_safe() << " warning=" << db.get_total_warning() << "\n";
  if (db.get_total_safe() > 0) { crab::outs() << "  FAIL: assert(x >= 1) reported SAFE but a[i] is unconstrained\n"; return 1; }
  return 0;
}
int main() {
  crab::CrabEnableWarningMsg(false);
  int bad = 0;
  bad += run<z_interval_domain_t>("intervals");
  bad += run<z_sdbm_domain_t>("split-dbm");
  bad += run<z_as_dis_int_t>("array_smashing(dis_intervals)");
  bad += run<z_aa_int_t>("array_adaptive(intervals)");
  return bad ? 1 : 0;
}
