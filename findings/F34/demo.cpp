// F34 (C08/C03): z_interval division, general case (neither operand contains 0): the dividend was shifted by (divisor + 1) / (1 - divisor)
// before taking the corner quotients, which is not the truncated division z_number implements: [-3,-2] / [-3,-2] = [1,2] misses -2/-3 = 0.
// build: g++ -w -std=c++11 -O1 -I/repo/include -I/repo/_build/include demo.cpp /repo/lib/interval.cpp /repo/_build/lib/libCrab.a -lgmp
#include <crab/domains/interval.hpp>
#include <crab/support/os.hpp>
using namespace ikos; typedef interval<z_number> I; typedef z_number Z;
int main() {
  long bad = 0; int shown = 0;
  for (int l1 = -4; l1 <= 4; l1++) for (int u1 = l1; u1 <= 4; u1++) for (int l2 = -4; l2 <= 4; l2++) for (int u2 = l2; u2 <= 4; u2++) {
    Z zl1(l1), zu1(u1), zl2(l2), zu2(u2);
    I a(zl1, zu1), b(zl2, zu2); I r = a / b;
    for (int x = l1; x <= u1; x++) for (int y = l2; y <= u2; y++) { if (!y) continue; int q = x / y;
      Z zq(q); I qi(zq);
      if (r.is_bottom() || !(qi <= r)) { bad++; if (shown < 4) { shown++; crab::outs() << a << " / " << b << " = " << r << " misses " << x << "/" << y << " = " << q << "\n"; } } }
  }
  crab::outs() << bad << " unsound results\n";
  return bad ? 1 : 0;
}
