// F42 / F43 (C04, C05): build with
//   g++ -w -std=c++11 -O1 -I/repo/include -I/repo/_build/include -I/repo/tests demo.cpp /repo/_build/lib/libCrab.a -lgmp
// operator<= of a lifting domain must compare every component that join / widening combine.
//  P1 (F42) flat_boolean_numerical_domain::operator<= looked at the product only.  The facts cached for the reduction
//     (b -> y<=3) are part of the abstract state: the loop below was declared stable while they were still changing and the
//     invariant at `head` excluded the reachable state w = 7 (found by the round-2 seeding sub-agent for C05 on the unchanged tree).
//  P2 (F43) array_smashing::operator<= looked at the base domain only, not at the last-access sizes that decide whether the
//     smashed scalar is a valid summary: A <= B although a load from A is unknown and the same load from B is 5.
#include "crab_lang.hpp"
#include "crab_dom.hpp"
#include <crab/analysis/fwd_analyzer.hpp>
using namespace crab::cfg_impl;
using namespace crab::domain_impl;
using namespace ikos;
using dom_t = z_bool_interval_domain_t;
using interval_t = ikos::interval<z_number>;
using analyzer_t = crab::analyzer::intra_fwd_analyzer<z_cfg_ref_t, dom_t>;
static int bad = 0;

static void p1() {
  variable_factory_t vfac;
  z_var y(vfac["y"], crab::INT_TYPE, 32), i(vfac["i"], crab::INT_TYPE, 32), w(vfac["w"], crab::INT_TYPE, 32);
  z_var b(vfac["b"], crab::BOOL_TYPE, 1);
  auto cfg = new z_cfg_t("entry", "exit");
  z_basic_block_t &entry = cfg->insert("entry"); z_basic_block_t &head = cfg->insert("head");
  z_basic_block_t &body = cfg->insert("body");   z_basic_block_t &use = cfg->insert("use");
  z_basic_block_t &skip = cfg->insert("skip");   z_basic_block_t &merge = cfg->insert("merge");
  z_basic_block_t &redef = cfg->insert("redef"); z_basic_block_t &keep = cfg->insert("keep");
  z_basic_block_t &exit = cfg->insert("exit");
  entry >> head; head >> body; head >> exit; body >> use; body >> skip;
  use >> merge; skip >> merge; merge >> redef; merge >> keep; redef >> head; keep >> head;
  entry.havoc(y); entry.assume(y >= z_number(0)); entry.assume(y <= z_number(10));
  entry.havoc(w); entry.assume(w >= z_number(0)); entry.assume(w <= z_number(3));
  entry.assign(i, z_number(0));
  entry.bool_assign(b, y <= z_number(3));
  body.add(i, i, z_number(1));
  use.assume(i >= z_number(4)); use.bool_assume(b); use.assign(w, y);   // b was redefined as y<=100 by then: w = y = 7 possible
  skip.assume(i <= z_number(3));
  redef.assume(i >= z_number(3)); redef.bool_assign(b, y <= z_number(100));
  keep.assume(i <= z_number(2));
  dom_t init;
  crab::fixpoint_parameters params;
  params.get_widening_delay() = 1; params.get_descending_iterations() = 0; params.get_max_thresholds() = 0;
  analyzer_t a(*cfg, init.make_top(), nullptr, params);
  typename analyzer_t::assumption_map_t assumptions;
  a.run(cfg->entry(), init, assumptions);
  dom_t inv = a["head"];
  interval_t wi = inv[w];
  crab::outs() << "P1 head: " << inv << "\n";
  if (!(interval_t(z_number(7)) <= wi)) { crab::outs() << "  UNSOUND: y = 7, w = 7 is reachable at head\n"; bad++; }
  delete cfg;
}

static void p2() {
  using sm_t = z_as_dis_int_t; // array_smashing over disjunctive intervals (tests/crab_dom.hpp)
  variable_factory_t vfac;
  z_var a(vfac["A"], crab::ARR_INT_TYPE, 32), x(vfac["x"], crab::INT_TYPE, 32);
  sm_t B1, B2;
  B1.array_store(a, z_number(4), z_number(0), z_number(5), true);
  B2.array_store(a, z_number(8), z_number(0), z_number(5), true);
  sm_t A = B1 | B2;      // last access size unknown: the smashed scalar is not a valid summary any more
  sm_t B(B1);
  bool leq = (A <= B);
  sm_t A1(A), Bc(B);
  A1.array_load(x, a, z_number(4), z_number(0));
  Bc.array_load(x, a, z_number(4), z_number(0));
  crab::outs() << "P2 A <= B: " << (leq ? "yes" : "no") << "   load from A: " << A1[x] << "   load from B: " << Bc[x] << "\n";
  if (leq && !(A1[x] <= Bc[x])) { crab::outs() << "  UNSOUND: A <= B but A describes states that B excludes\n"; bad++; }
}

int main() {
  crab::CrabEnableWarningMsg(false);
  p1(); p2();
  return bad ? 1 : 0;
}
