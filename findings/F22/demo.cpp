// F22 (C03): build with  g++ -std=c++11 -O1 -I/repo/include -I/repo/_build/include -I/repo/tests demo.cpp /repo/_build/lib/libCrab.a -lgmp
// before the fix split_oct keeps x = [5,5] after x := y + z and x := 2*y (exit 1); after it x is top (exit 0).
// candidate (C03): split_oct_domain::assign keeps the old value of the lhs when no octagon constraint can be extracted from the rhs
#include "crab_lang.hpp"
#include "crab_dom.hpp"
using namespace crab; using namespace crab::cfg_impl; using namespace crab::domain_impl; using namespace ikos;
template <typename D> int run(const char *name) {
  variable_factory_t vfac;
  z_var x(vfac["x"], crab::INT_TYPE, 32), y(vfac["y"], crab::INT_TYPE, 32), z(vfac["z"], crab::INT_TYPE, 32);
  int bad = 0;
  { D d; d.assign(x, z_number(5)); d.assign(x, z_lin_exp_t(y) + z_lin_exp_t(z));
    auto i = d[x]; bool ok = i.is_top();
    crab::outs() << name << ": x := 5; x := y + z  ->  x = " << i << (ok ? "" : "   UNSOUND (y, z unconstrained)") << "\n"; bad += !ok; }
  { D d; d.assign(x, z_number(5)); d.assign(x, z_number(2) * z_lin_exp_t(y));
    auto i = d[x]; bool ok = i.is_top();
    crab::outs() << name << ": x := 5; x := 2*y    ->  x = " << i << (ok ? "" : "   UNSOUND") << "\n"; bad += !ok; }
  return bad;
}
int main() {
  int bad = 0;
  bad += run<z_soct_domain_t>("split_oct");
  bad += run<z_sdbm_domain_t>("split_dbm");
  return bad ? 1 : 0;
}
