// F23 (C15): build with  g++ -std=c++11 -O1 -I/repo/include -I/repo/_build/include -I/repo/tests demo.cpp /repo/_build/lib/libCrab.a -lgmp
// before the fix is_null_ref(p) = true after p := make_ref(M) when p was null before (exit 1); after it: unknown (exit 0).
// candidate (C15): region_domain::ref_make does not forget what the base domain knows about the reference being (re)defined
#include "crab_lang.hpp"
#include "crab_dom.hpp"
using namespace crab; using namespace crab::cfg_impl; using namespace crab::domain_impl; using namespace ikos;
template <typename D> int run(const char *name) {
  variable_factory_t vfac;
  z_var p(vfac["p"], crab::REF_TYPE), q(vfac["q"], crab::REF_TYPE);
  z_var M(vfac["M"], crab::REG_INT_TYPE, 32);
  z_var i(vfac["i"], crab::INT_TYPE, 32), x(vfac["x"], crab::INT_TYPE, 32);
  crab::tag_manager as_man;
  z_var_or_cst_t size4(z_number(4), crab::variable_type(crab::INT_TYPE, 32));
  int bad = 0;
  { D d; d.region_init(M);
    d.ref_assume(z_ref_cst_t::mk_null(p));                 // p == NULL
    d.ref_make(p, M, size4, as_man.mk_tag());              // p := fresh object
    auto b = d.is_null_ref(p);
    crab::outs() << name << ": assume(p == NULL); p := make_ref(M)  ->  is_null_ref(p) = " << b << "  " << d << "\n";
    if (b.is_true()) { crab::outs() << "   UNSOUND: a freshly made reference is reported definitely null\n"; bad++; } }
  { D d; d.region_init(M);
    d.assign(i, z_number(0));
    d.int_to_ref(i, M, p);                                  // p := (ref) 0
    d.assign(x, z_number(7));
    d.ref_to_int(M, p, x);                                  // x := (int) p = 0
    d.ref_make(p, M, size4, as_man.mk_tag());
    auto b = d.is_null_ref(p);
    crab::outs() << name << ": p := int_to_ref(0); p := make_ref(M)  ->  is_null_ref(p) = " << b << "\n";
    if (b.is_true()) { crab::outs() << "   UNSOUND\n"; bad++; } }
  return bad;
}
int main() {
  crab::CrabEnableWarningMsg(false);
  int bad = run<z_rgn_int_t>("region(intervals)");
  bad += run<z_rgn_sdbm_t>("region(zones)");
  return bad ? 1 : 0;
}
