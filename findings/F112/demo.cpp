// C15 violation: region_domain::region_copy (and region_cast) overwrite the
// region_info of the destination region with the one of the source, i.e. the
// destination's reference counter becomes the counter of the SOURCE.  The
// references that were created for the destination before the copy are still
// references into the destination, but they are no longer counted: if the
// source has zero or one reference, every store through any of the old
// references of the destination is a STRONG update of the single ghost
// variable of the region, and a load through another reference returns the
// value written last.
//
// default parameters; unusual but legal input: the destination of the
// region_copy already has references (nothing in CrabIR forbids it, and
// region_copy does not reject it the way region_init rejects a second
// initialisation).
#include "../tests/common.hpp"
using namespace crab::cfg;
using namespace crab::cfg_impl;
using namespace crab::domain_impl;
using namespace ikos;
using namespace crab::domains;

template <class Dom> int run(const char *name, bool use_cast) {
  variable_factory_t vfac;
  crab::tag_manager as_man;
  z_var_or_cst_t size4(z_number(4), crab::variable_type(crab::INT_TYPE, 32));
  z_var_or_cst_t one(z_number(1), crab::variable_type(crab::INT_TYPE, 32));
  z_var_or_cst_t two(z_number(2), crab::variable_type(crab::INT_TYPE, 32));
  z_var_or_cst_t nine(z_number(9), crab::variable_type(crab::INT_TYPE, 32));
  z_var R1(vfac["R1"], use_cast ? crab::REG_UNKNOWN_TYPE : crab::REG_INT_TYPE, 32);
  z_var R2(vfac["R2"], crab::REG_INT_TYPE, 32);
  z_var a(vfac["a"], crab::REF_TYPE, 32);
  z_var b(vfac["b"], crab::REF_TYPE, 32);
  z_var c(vfac["c"], crab::REF_TYPE, 32);
  z_var x(vfac["x"], crab::INT_TYPE, 32);

  //  a := make_ref(R2); b := make_ref(R2);      two cells of R2
  //  c := make_ref(R1); *c := 9;
  //  R2 := region_copy(R1)   (or region_cast(R1 -> R2))
  //  *a := 1; *b := 2; x := *a                   concretely x == 1
  Dom inv;
  inv.region_init(R1);
  inv.region_init(R2);
  inv.ref_make(a, R2, size4, as_man.mk_tag());
  inv.ref_make(b, R2, size4, as_man.mk_tag());
  inv.ref_make(c, R1, size4, as_man.mk_tag());
  inv.ref_store(c, R1, nine);
  if (use_cast)
    inv.region_cast(R1, R2);
  else
    inv.region_copy(R2, R1);
  inv.ref_store(a, R2, one);
  inv.ref_store(b, R2, two);
  inv.ref_load(a, R2, x);
  auto ix = inv[x];
  crab::outs() << name << (use_cast ? " region_cast: " : " region_copy: ")
               << inv << "   x=" << ix << "\n";
  if (!(ikos::interval<z_number>(z_number(1)) <= ix)) {
    crab::outs() << "  VIOLATION: x == 1 concretely\n";
    return 1;
  }
  return 0;
}

int main() {
  region_domain_params p; // defaults
  crab_domain_params_man::get().update_params(p);
  crab::CrabEnableWarningMsg(false);
  int bad = 0;
  bad |= run<z_rgn_int_t>("region(intervals)", false);
  bad |= run<z_rgn_sdbm_t>("region(split_dbm)", false);
  bad |= run<z_rgn_int_t>("region(intervals)", true);
  return bad;
}
