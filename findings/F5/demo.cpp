// F5: make_ref_stmt does not register its size operand as a use (C18/C17):
// DCE deletes `n := 8` although `p := make_ref(R, n)` reads n.
#include "lang.hpp"
#include <crab/transforms/dce.hpp>
using namespace crab;
using namespace crab::cfg_impl;
int main() {
  variable_factory_t vfac;
  crab::tag_manager as_man;
  z_var n(vfac["n"], crab::INT_TYPE, 32);
  z_var p(vfac["p"], crab::REF_TYPE);
  z_var R(vfac["R"], crab::REG_INT_TYPE, 32);
  z_var x(vfac["x"], crab::INT_TYPE, 32);
  z_cfg_t cfg("entry", "exit");
  z_basic_block_t &entry = cfg.insert("entry");
  z_basic_block_t &exit = cfg.insert("exit");
  entry >> exit;
  entry.region_init(R);
  entry.assign(n, 8);
  entry.make_ref(p, R, n, as_man.mk_tag());
  exit.assert_ref(reference_constraint<ikos::z_number, varname_t>::mk_not_null(p));
  z_cfg_ref_t ref(cfg);
  crab::transforms::dead_code_elimination<z_cfg_ref_t> dce;
  dce.run(ref);
  crab::outs() << cfg << "\n";
  // `n := 8` must survive: make_ref reads n
  unsigned stmts = 0;
  for (auto &s : entry) { (void)s; ++stmts; }
  if (stmts != 3) { crab::outs() << "DCE removed the definition of the allocation size\n"; return 1; }
  return 0;
}
