// discovery aid: exhaustive check that wrapped_interval widening / join contain both arguments (widths 3..5)
#include <crab/domains/wrapped_interval.hpp>
#include <crab/support/os.hpp>
#include <vector>
using namespace crab::domains; using namespace ikos; using crab::wrapint;
typedef wrapped_interval<z_number> W;
int main(){ unsigned long bad=0,n=0;
 for(unsigned w=3; w<=5; w++){ unsigned M=1u<<w; std::vector<W> all;
  for(unsigned s=0;s<M;s++) for(unsigned e=0;e<M;e++){ if (((e - s) & (M-1)) == M-1 && s!=0) continue; all.push_back(W(wrapint(s,w), wrapint(e,w))); }
  for(auto&a:all) for(auto&b:all){ n++; W r = a || b; W j = a | b; 
    for(unsigned k=0;k<M;k++){ wrapint v(k,w); bool ina=a.at(v), inb=b.at(v);
      if((ina||inb) && !r.is_top() && !r.at(v)){ if(bad++<5) crab::outs()<<a<<" || "<<b<<" = "<<r<<" misses "<<k<<"\n"; break;}
      if((ina||inb) && !j.is_top() && !j.at(v)){ if(bad++<5) crab::outs()<<a<<" | "<<b<<" = "<<j<<" misses "<<k<<"\n"; break;} } } }
 crab::outs()<<n<<" pairs, "<<bad<<" failures\n"; return bad?1:0; }
