// F68 (C03): g++ -w -std=c++11 -O1 -I/repo/include -I/repo/_build/include -I/repo/tests demo.cpp /repo/_build/lib/libCrab.a -lgmp
// p := (-1 - a == 0); p := !q (nothing known about q); assume p  gave bottom: the negated branch of propagate_assign_bool_var kept the
// constraint cached for the PREVIOUS definition of p when q has no cached constraint. Found by the discovery aid (boolint+b, seed 204).
#include "crab_lang.hpp"
#include "crab_dom.hpp"
using namespace crab::cfg_impl; using namespace crab::domain_impl; using namespace ikos;
int main(){ typedef z_bool_interval_domain_t D; variable_factory_t vfac;
  z_var a(vfac["a"], crab::INT_TYPE, 32), c(vfac["c"], crab::INT_TYPE, 32); z_var p(vfac["p"], crab::BOOL_TYPE, 1), q(vfac["q"], crab::BOOL_TYPE, 1);
  D d; d += (a >= z_number(0)); d += (a <= z_number(3));
  d.apply_binary_bool(crab::domains::OP_BAND, q, p, q);
  crab::outs() << "after q := p & q: " << d << "\n";
  z_lin_exp_t e = z_number(-1) - z_lin_exp_t(a);
  d.assign_bool_cst(p, z_lin_cst_t(e == z_number(0)));
  crab::outs() << "after p := (-1 - a == 0): " << d << "\n";
  d.assign_bool_var(p, q, true);
  crab::outs() << "after p := !q: " << d << "\n";
  D d1(d); d1.assume_bool(p, false); crab::outs() << "assume p: " << d1 << "\n";
  D d2(d); d2.assume_bool(q, true); crab::outs() << "assume !q: " << d2 << "\n";
  D d3(d); d3.assume_bool(p, false); d3.assume_bool(q, true); crab::outs() << "assume p; assume !q: " << d3 << "\n";
  return d1.is_bottom() ? 1 : 0; }
