// UNCHANGED TREE (no patch needed): value_partitioning_domain::update_partitions
// can leave overlapping partitions, and the element-wise meet of two values
// with the same (overlapping) partitions then drops concrete states.
//
// update_partitions() sorts the partitions by lower bound and merges only
// *adjacent* partitions in one backward pass.  With partitions
//   A: x in [0,10], B: x in [2,3], C: x in [5,6]
// the pass compares (B,C): no overlap; then (A,B): merge -> A = [0,10]; the
// iterator is now at begin() and the loop stops, so A = [0,10] and C = [5,6]
// are both kept although they overlap.  operator& / operator&= on two values
// whose partition intervals are identical is element-wise, which is only
// correct if the partitions are pairwise disjoint.
//
// Exit status 1 when the violation is observed, 0 otherwise.
#include "crab_lang.hpp"
#include "crab_dom.hpp"
#include <crab/domains/value_partitioning_domain.hpp>

using namespace crab::cfg_impl;
using namespace crab::domain_impl;
using namespace crab::domains;

using dom_t = value_partitioning_domain<z_interval_domain_t>;

static dom_t slice(const dom_t &start, const z_var &x, const z_var &w,
                   const z_var &y, long xlo, long xhi, long wlo, long whi,
                   long yv) {
  dom_t d(start);
  d += (z_lin_exp_t(x) >= z_number(xlo));
  d += (z_lin_exp_t(x) <= z_number(xhi));
  d += (z_lin_exp_t(w) >= z_number(wlo));
  d += (z_lin_exp_t(w) <= z_number(whi));
  d.assign(y, z_number(yv));
  return d;
}

static dom_t build(const dom_t &top, const z_var &x, const z_var &w,
                   const z_var &y, long y1, long y2) {
  // {x=0, w in [0,10], y=y1} | {x in [2,3], w=0, y=y1} | {x in [5,6], w=0, y=y2}
  dom_t v = slice(top, x, w, y, 0, 0, 0, 10, y1) |
            slice(top, x, w, y, 2, 3, 0, 0, y1) |
            slice(top, x, w, y, 5, 6, 0, 0, y2);
  v.apply(crab::domains::OP_ADDITION, x, x, w); // x := x + w
  v -= w;                                        // havoc(w)
  return v;
}

int main() {
  variable_factory_t vfac;
  z_var x(vfac["x"], crab::INT_TYPE, 32);
  z_var w(vfac["w"], crab::INT_TYPE, 32);
  z_var y(vfac["y"], crab::INT_TYPE, 32);

  dom_t top;
  top.intrinsic(VALUE_PARTITION_START, {x}, {});

  // V1 describes (x=5,y=1): start from x=0,w=5,y=1.
  dom_t v1 = build(top, x, w, y, 1, 2);
  // V2 describes (x=5,y=1): start from x=5,w=0,y=1.
  dom_t v2 = build(top, x, w, y, 2, 1);
  crab::outs() << "V1 = " << v1 << "\nV2 = " << v2 << "\n";

  dom_t m = v1 & v2;
  crab::outs() << "V1 & V2 = " << m << "\n";

  auto describes = [&](const dom_t &d) {
    dom_t c(d);
    c += (z_lin_exp_t(x) == z_number(5));
    c += (z_lin_exp_t(y) == z_number(1));
    return !c.is_bottom();
  };
  if (!describes(v1) || !describes(v2)) {
    crab::outs() << "unexpected: an operand does not describe (x=5,y=1)\n";
    return 2;
  }
  if (!describes(m)) {
    crab::outs() << "UNSOUND (unchanged tree): (x=5,y=1) is described by V1 "
                    "and V2 but not by V1 & V2\n";
    return 1;
  }
  crab::outs() << "OK\n";
  return 0;
}
