// C15 violation: region_domain::ref_store, branch "Reinterpret the region"
// (unknown region that held non-references and now receives a reference).
// The branch sets new_rgn_info.init_val() = false and that value is what is
// written back to m_rgn_env *after* the reference has been stored, so the
// region that now holds a reference is recorded as "never written".  The next
// store through another reference of the same region is then a STRONG update
// (is_uninitialized_rgn) and overwrites the first stored reference.
//
// needs region.skip_unknown_regions=false (non-default in the tests) and, for
// the allocation-site part, region.allocation_sites=true.
#include "../tests/common.hpp"
using namespace crab::cfg;
using namespace crab::cfg_impl;
using namespace crab::domain_impl;
using namespace ikos;
using namespace crab::domains;

template <class Dom> int run(const char *name) {
  int bad = 0;
  variable_factory_t vfac;
  crab::tag_manager as_man;
  z_var_or_cst_t size4(z_number(4), crab::variable_type(crab::INT_TYPE, 32));
  z_var_or_cst_t five(z_number(5), crab::variable_type(crab::INT_TYPE, 32));
  z_var U(vfac["U"], crab::REG_UNKNOWN_TYPE, 32);
  z_var RA(vfac["RA"], crab::REG_INT_TYPE, 32);
  z_var r1(vfac["r1"], crab::REF_TYPE, 32);
  z_var r2(vfac["r2"], crab::REF_TYPE, 32);
  z_var r3(vfac["r3"], crab::REF_TYPE, 32);
  z_var a(vfac["a"], crab::REF_TYPE, 32);
  z_var b(vfac["b"], crab::REF_TYPE, 32);
  z_var p(vfac["p"], crab::REF_TYPE, 32);
  crab::allocation_site sA = as_man.mk_tag(), sB = as_man.mk_tag();
  {
    // U has three distinct cells r1, r2, r3.
    //   *r1 := 5 ; *r2 := a ; *r3 := b ; p := *r2     (concretely p == a)
    Dom inv;
    inv.region_init(U);
    inv.region_init(RA);
    inv.ref_make(r1, U, size4, as_man.mk_tag());
    inv.ref_make(r2, U, size4, as_man.mk_tag());
    inv.ref_make(r3, U, size4, as_man.mk_tag());
    inv.ref_make(a, RA, size4, sA);
    inv.ref_make(b, RA, size4, sB);
    inv.ref_store(r1, U, five);
    inv.ref_store(r2, U, z_var_or_cst_t(a));
    inv.ref_store(r3, U, z_var_or_cst_t(b));
    inv.ref_load(r2, U, p);
    std::vector<crab::allocation_site> sites;
    bool known = inv.get_allocation_sites(p, sites);
    bool hasA = false;
    for (auto &s : sites) if (s == sA) hasA = true;
    crab::outs() << name << ": allocation sites of p known=" << known
                 << " contains site(a)=" << hasA << "\n";
    if (known && !hasA) {
      crab::outs() << "  VIOLATION: p == a concretely but site(a) not reported\n";
      bad = 1;
    }
  }
  {
    //   *r1 := 5 ; *r2 := NULL ; assume(b != NULL); *r3 := b ; p := *r2
    //   concretely p == NULL
    Dom inv;
    inv.region_init(U);
    inv.region_init(RA);
    inv.ref_make(r1, U, size4, as_man.mk_tag());
    inv.ref_make(r2, U, size4, as_man.mk_tag());
    inv.ref_make(r3, U, size4, as_man.mk_tag());
    inv.ref_make(b, RA, size4, sB);
    inv.ref_assume(z_ref_cst_t::mk_gt_null(b));
    inv.ref_store(r1, U, five);
    inv.ref_store(r2, U, z_var_or_cst_t::make_reference_null());
    inv.ref_store(r3, U, z_var_or_cst_t(b));
    inv.ref_load(r2, U, p);
    boolean_value nul = inv.is_null_ref(p);
    crab::outs() << name << ": is_null_ref(p)=" << nul << " state=" << inv << "\n";
    if (nul.is_false()) {
      crab::outs() << "  VIOLATION: p == NULL concretely but p is reported "
                      "definitely non-null\n";
      bad = 1;
    }
  }
  return bad;
}

int main() {
  region_domain_params p(true /*allocation_sites*/, false, false, false,
                         false /*skip_unknown_regions*/);
  crab_domain_params_man::get().update_params(p);
  int bad = 0;
  bad |= run<z_rgn_int_t>("region(intervals)");
  bad |= run<z_rgn_sdbm_t>("region(split_dbm)");
  return bad;
}
