// UNCHANGED-TREE violation #1 (independent of patch.diff).
//
// region_domain::ref_assume(p == q + k) with region.is_dereferenceable=true
// adds, besides  address(p) == address(q) + k  and  offset(p) == offset(q) + k,
// also  size(p) == size(q) + k.  p and q point into the same object, so their
// sizes are EQUAL; with k != 0 the constraint is false and the state becomes
// bottom although the assumption holds in the concrete execution.  Every load
// after that yields bottom, which does not contain the concrete value.
//
//   region_init(R); p := make_ref(R, 8); assume(p > null);
//   q := gep(p, 4); store(R, q, 5);
//   assume(q == p + 4);          // always true
//   x := load(R, q);             // concrete: 5, abstract: _|_
//
// exit status 1 when the violation is observed.
#include "../tests/common.hpp"
using namespace crab::cfg_impl;
using namespace crab::domain_impl;
using namespace ikos;
typedef interval<z_number> z_interval_t;

int main() {
  crab::CrabEnableWarningMsg(false);
  variable_factory_t vfac;
  crab::tag_manager as_man;
  z_var_or_cst_t size8(z_number(8), crab::variable_type(crab::INT_TYPE, 32));
  z_var_or_cst_t n5(z_number(5), crab::variable_type(crab::INT_TYPE, 32));
  region_domain_params prm(true, false, true, true /*is_dereferenceable*/, true);
  crab_domain_params_man::get().update_params(prm);
  z_var p(vfac["p"], crab::REF_TYPE, 32);
  z_var q(vfac["q"], crab::REF_TYPE, 32);
  z_var x(vfac["x"], crab::INT_TYPE, 32);
  z_var R(vfac["R"], crab::REG_INT_TYPE, 32);
  z_rgn_int_t inv;
  inv.region_init(R);
  inv.ref_make(p, R, size8, as_man.mk_tag());
  inv.ref_assume(z_ref_cst_t::mk_gt_null(p));
  inv.ref_gep(p, R, q, R, z_lin_exp_t(z_number(4)));
  inv.ref_store(q, R, n5);
  crab::outs() << "before assume(q == p + 4): " << inv << "\n";
  inv.ref_assume(z_ref_cst_t::mk_eq(q, p, z_number(4)));
  crab::outs() << "after  assume(q == p + 4): " << inv << "\n";
  inv.ref_load(q, R, x);
  z_interval_t ix = inv[x];
  crab::outs() << "x = " << ix << "\n";
  if (inv.is_bottom() || !(z_interval_t(z_number(5)) <= ix)) {
    crab::outs() << "UNSOUND: reachable state became bottom / x misses 5\n";
    return 1;
  }
  return 0;
}
