// F11 (C13): wrapped_interval::signed_mul measured negative-hemisphere bounds with get_unsigned_bignum in its overflow
// tests; e.g. [0,2]_5 * [1,31]_5 = [0,30]_5 misses 1*31 = 31.  Exhaustive over all pairs of 5-bit wrapped intervals:
// 4576213 (interval, interval, value) triples outside the result before the fix, 0 after.
// build: g++ -std=c++11 -O2 -I/repo/include -I/repo/_build/include demo.cpp /repo/lib/wrapped_interval.cpp /repo/_build/lib/libCrab.a -lgmp
#include <crab/domains/wrapped_interval.hpp>
#include <crab/numbers/wrapint.hpp>
#include <crab/support/os.hpp>
using namespace crab; using namespace crab::domains; using namespace ikos;
typedef wrapped_interval<z_number> wi_t;
int main() {
  unsigned w = 5; unsigned M = 1u << w; long bad = 0; int shown = 0;
  for (unsigned s1 = 0; s1 < M; s1++) for (unsigned n1 = 0; n1 < M - 1; n1++)
  for (unsigned s2 = 0; s2 < M; s2++) for (unsigned n2 = 0; n2 < M - 1; n2++) {
    wi_t a(wrapint(s1, w), wrapint((s1 + n1) % M, w)), b(wrapint(s2, w), wrapint((s2 + n2) % M, w));
    wi_t r = a * b;
    for (unsigned i = 0; i <= n1; i++) for (unsigned j = 0; j <= n2; j++) {
      unsigned x = (s1 + i) % M, y = (s2 + j) % M, z = (x * y) % M;
      if (!r.at(wrapint(z, w))) { bad++; if (shown < 5) { shown++; crab::outs() << a << " * " << b << " = " << r << " misses " << x << "*" << y << "=" << z << "\n"; } }
    }
  }
  crab::outs() << "violations: " << bad << "\n";
  return bad ? 1 : 0;
}
